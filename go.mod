module verif

go 1.23

require (
	github.com/jsightapi/jsight-api-go-library v0.0.0
	github.com/jsightapi/jsight-schema-go-library v1.0.1-0.20221003140029-c68c810f065f
	pgregory.net/rapid v1.3.0
)

require github.com/lucasjones/reggen v0.0.0-20200904144131-37ba4fa293bb // indirect

replace github.com/jsightapi/jsight-api-go-library => /repo
