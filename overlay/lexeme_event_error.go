package lexeme

// Verification overlay: identical to the library's file except that a
// recovered runtime.Error is logged (see verifLogFault) before it is converted.

import (
	"fmt"
	"os"
	"runtime"
	"runtime/debug"

	"github.com/jsightapi/jsight-schema-go-library/errors"
)

func CatchLexEventError(lex LexEvent) {
	r := recover() //nolint:revive // It's okay.
	if r == nil {
		return
	}
	verifLogFault(r)

	switch val := r.(type) {
	case errors.DocumentError:
		panic(r)
	case errors.Err:
		panic(NewLexEventError(lex, val))
	default:
		panic(NewLexEventError(lex, errors.Format(errors.ErrGeneric, fmt.Sprintf("%s", r))))
	}
}

func CatchLexEventErrorWithIncorrectUserType(lex LexEvent, name string) {
	if name == "" {
		CatchLexEventError(lex)
		return
	}
	r := recover() //nolint:revive // It's okay.
	if r == nil {
		return
	}
	verifLogFault(r)

	switch val := r.(type) {
	case errors.DocumentError:
		panic(r)
	case errors.Err:
		e := NewLexEventError(lex, val)
		e.SetIncorrectUserType(name)
		panic(e)
	default:
		e := NewLexEventError(lex, errors.Format(errors.ErrGeneric, fmt.Sprintf("%s", r)))
		e.SetIncorrectUserType(name)
		panic(e)
	}
}

func NewLexEventError(lex LexEvent, err errors.Err) errors.DocumentError {
	e := errors.NewDocumentError(lex.File(), err)
	e.SetIndex(lex.Begin())
	return e
}

func verifLogFault(r interface{}) {
	re, ok := r.(runtime.Error)
	if !ok {
		return
	}
	if p := os.Getenv("VERIF_FAULTLOG"); p != "" {
		if f, err := os.OpenFile(p, os.O_APPEND|os.O_CREATE|os.O_WRONLY, 0o644); err == nil {
			_, _ = f.WriteString("FAULT " + re.Error() + "\n" + string(debug.Stack()) + "\nEND\n")
			_ = f.Close()
		}
	}
}
