package panics

// Verification overlay of internal/panics/panics.go of the schema library: the
// behaviour is unchanged; a recovered runtime.Error is additionally logged
// with its stack to the file named by VERIF_FAULTLOG, so that a runtime fault
// the library turns into an ordinary error can be attributed to its origin.

import (
	"os"
	"runtime"
	"runtime/debug"
)

func verifLogFault(r interface{}) {
	re, ok := r.(runtime.Error)
	if !ok {
		return
	}
	if p := os.Getenv("VERIF_FAULTLOG"); p != "" {
		if f, err := os.OpenFile(p, os.O_APPEND|os.O_CREATE|os.O_WRONLY, 0o644); err == nil {
			_, _ = f.WriteString("FAULT " + re.Error() + "\n" + string(debug.Stack()) + "\nEND\n")
			_ = f.Close()
		}
	}
}

// Handle handles panics properly.
func Handle(r interface{}, originErr error) error {
	verifLogFault(r)

	if originErr != nil {
		return originErr
	}

	if r == nil {
		return nil
	}

	rErr, ok := r.(error)
	if !ok {
		panic(r)
	}
	return rErr
}
