#!/bin/bash
# Offline setup: prime the Go build cache for the driver and the check binary.
set -e
cd "$(dirname "${BASH_SOURCE[0]}")"
export GOFLAGS=-mod=mod GOPROXY=off GOSUMDB=off GOTOOLCHAIN=local
mkdir -p .bin .work evidence replays
go build -o .bin/vcheck.setup ./cmd/vcheck && rm -f .bin/vcheck.setup
GODEBUG=goindex=0 go test -c -tags verif -vet=off -o .bin/props.setup ./props && rm -f .bin/props.setup
echo "setup ok"
