#!/bin/bash
# usage: tools/fixcommit.sh "fix: message"   (run from anywhere; commits /repo if the pinned suite passes)
set -e
export GOFLAGS=-mod=mod GOPROXY=off GOSUMDB=off
cd /repo
go build ./... && go vet -tags verif ./core ./scanner ./catalog ./directive ./jerr >/dev/null
if ! go test -vet=off -count=1 ./... > /tmp/fixcommit.log 2>&1; then
  grep -E "^(--- FAIL|FAIL|ok)" /tmp/fixcommit.log | head -20
  echo "SUITE FAILS - not committed"; exit 1
fi
git checkout -- go.sum 2>/dev/null || true
git add -A && git commit -qm "$1" && git log --oneline | head -1
