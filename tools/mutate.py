#!/usr/bin/env python3
"""mutate.py gen|survivors|check ...
Mutation screening of the checks (a systematic complement to the sub-agent seeds).

  mutate.py gen OUT [N] [SEED]       enumerate mutation sites in /repo's library sources, sample N of them
                                     (default 400), write OUT/m<k>.json {file, line, old, new, op}
  mutate.py survivors OUT [WORKERS]  for every sampled mutant: apply it in a scratch worktree, build, run the
                                     pinned suite; mutants that compile and keep the suite green are
                                     survivors: OUT/surv/m<k>.diff
  mutate.py check OUT [WORKERS]      run, for every survivor, the quick checks of the properties anchored in the
                                     mutated file (properties.jsonl anchors.files, plus C01) against a scratch
                                     worktree; OUT/results.tsv: mutant, op, file:line, caught-by | missed

Nothing is ever applied to /repo itself; worktrees live under /tmp and are removed.
"""
import json, os, random, re, subprocess, sys, glob, shutil, concurrent.futures as cf

REPO = '/repo'
ENV = dict(os.environ, GOFLAGS='-mod=mod', GOPROXY='off', GOSUMDB='off', GOTOOLCHAIN='local')

OPS = [
    (r'(?<![=!<>])==(?!=)', '!=', 'eq->ne'), (r'!=', '==', 'ne->eq'),
    (r'(?<![<-])<=(?!=)', '<', 'le->lt'), (r'>=', '>', 'ge->gt'),
    (r'(?<![<\-=])<(?![<=\-])', '<=', 'lt->le'), (r'(?<![>\-=])>(?![>=])', '>=', 'gt->ge'),
    (r'&&', '||', 'and->or'), (r'\|\|', '&&', 'or->and'),
    (r'\+ 1\b', '', 'drop+1'), (r'- 1\b', '', 'drop-1'), (r'\b0\b', '1', '0->1'), (r'\b1\b', '0', '1->0'),
    (r'\bcontinue\b', 'break', 'continue->break'), (r'\bbreak\b', 'continue', 'break->continue'),
    (r'\btrue\b', 'false', 'true->false'), (r'\bfalse\b', 'true', 'false->true'),
    (r'!(?=[a-zA-Z(])', '', 'drop-not'), (r'\+\+', '--', 'inc->dec'),
    (r'\[1:', '[0:', 'slice1->0'), (r'\[:len\((\w+)\)-1\]', r'[:len(\1)]', 'slice-1'),
]

def sources():
    out = []
    for d in ('core', 'scanner', 'catalog', 'directive', 'jerr', 'kit', 'catalog/ser'):
        for f in sorted(glob.glob(f'{REPO}/{d}/*.go')):
            b = os.path.basename(f)
            if b.endswith('_test.go') or b.endswith('_gen.go') or b.startswith('verif_'):
                continue
            out.append(os.path.relpath(f, REPO))
    return out

def strip(line):
    # blank out string literals and comments so operators inside them are not touched
    out, i, n = [], 0, len(line)
    while i < n:
        c = line[i]
        if c == '/' and i + 1 < n and line[i + 1] == '/':
            out.append(' ' * (n - i)); break
        if c in '"`\'':
            j = i + 1
            while j < n and line[j] != c:
                j += 2 if line[j] == '\\' and c != '`' else 1
            j = min(j + 1, n)
            out.append(c + ' ' * (j - i - 2) + (c if j - i >= 2 else '')); i = j; continue
        out.append(c); i += 1
    return ''.join(out)

def sites():
    res = []
    for f in sources():
        lines = open(f'{REPO}/{f}').read().split('\n')
        inblock = False
        for ln, line in enumerate(lines, 1):
            t = line.strip()
            if t.startswith('/*'): inblock = True
            if inblock:
                if '*/' in t: inblock = False
                continue
            if not t or t.startswith('//') or t.startswith('import') or t.startswith('package') or t.startswith('case ') and t.endswith('":'):
                continue
            s = strip(line)
            if len(s) != len(line):
                s = s.ljust(len(line))[:len(line)]
            for pat, rep, op in OPS:
                for m in re.finditer(pat, s):
                    new = line[:m.start()] + re.sub(pat, rep, line[m.start():m.end()]) + line[m.end():]
                    if new != line:
                        res.append(dict(file=f, line=ln, old=line, new=new, op=op))
            # statement deletion: simple assignments and calls
            if re.match(r'^\s*[\w.\[\]]+(\s*[:+\-]?=\s*|\().*[^{,(]$', line) and not t.startswith(('return', 'if', 'for', 'switch', 'case', 'func', 'go ', 'defer', 'var', 'type')) and ':=' not in line:
                res.append(dict(file=f, line=ln, old=line, new=re.match(r'^\s*', line).group(0) + '_ = 0 // deleted', op='delete-stmt'))
    return res

def gen(out, n=400, seed=1):
    os.makedirs(out, exist_ok=True)
    ss = sites()
    random.Random(seed).shuffle(ss)
    for k, m in enumerate(ss[:n]):
        json.dump(m, open(f'{out}/m{k:04d}.json', 'w'))
    print(f'{len(ss)} sites, sampled {min(n, len(ss))}')

def sh(cmd, cwd, timeout=600):
    try:
        p = subprocess.run(cmd, cwd=cwd, env=ENV, shell=True, capture_output=True, text=True, timeout=timeout)
        return p.returncode, p.stdout + p.stderr
    except subprocess.TimeoutExpired:
        return 124, 'timeout'

def worker_tree(i):
    wt = f'/tmp/mutwt{i}'
    if not os.path.isdir(wt):
        sh(f'git worktree add -q --detach {wt} HEAD', REPO)
    sh('git checkout -q -- . && git clean -fdq', wt)
    return wt

def apply(wt, m):
    p = f'{wt}/{m["file"]}'
    lines = open(p).read().split('\n')
    if lines[m['line'] - 1] != m['old']:
        return False
    lines[m['line'] - 1] = m['new']
    open(p, 'w').write('\n'.join(lines))
    return True

def survive_one(args):
    i, path = args
    wt = worker_tree(i)
    m = json.load(open(path))
    name = os.path.basename(path)[:-5]
    if not apply(wt, m):
        return name, 'stale'
    rc, out = sh('go build ./... 2>&1', wt)
    if rc != 0:
        sh('git checkout -q -- .', wt)
        return name, 'nobuild'
    rc, out = sh('go test -vet=off -count=1 ./... 2>&1', wt, timeout=300)
    st = 'killed' if rc != 0 else 'survivor'
    if st == 'survivor':
        rc2, diff = sh('git diff', wt)
        os.makedirs(os.path.dirname(path) + '/surv', exist_ok=True)
        open(os.path.dirname(path) + f'/surv/{name}.diff', 'w').write(diff)
    sh('git checkout -q -- .', wt)
    return name, st

def pool_run(fn, items, workers):
    # each worker owns one worktree index
    import queue, threading
    q = queue.Queue()
    for it in items: q.put(it)
    res, lock = [], threading.Lock()
    def run(i):
        while True:
            try: it = q.get_nowait()
            except queue.Empty: return
            r = fn((i, it))
            with lock:
                res.append(r); print(*r, flush=True)
    ts = [threading.Thread(target=run, args=(i,)) for i in range(workers)]
    [t.start() for t in ts]; [t.join() for t in ts]
    return res

def survivors(out, workers=6):
    items = sorted(glob.glob(f'{out}/m*.json'))
    res = pool_run(survive_one, items, workers)
    from collections import Counter
    print(Counter(s for _, s in res))
    for i in range(workers):
        sh(f'git worktree remove --force /tmp/mutwt{i}', REPO)
    sh('git worktree prune', REPO)

def anchors():
    a = {}
    for l in open('/verif/properties.jsonl'):
        d = json.loads(l)
        for f in d['anchors']['files']:
            a.setdefault(f, []).append(d['id'])
    return a

def props_for(file, anch):
    ps = []
    for pat, ids in anch.items():
        if pat == file or ('*' in pat and re.fullmatch(pat.replace('.', r'\.').replace('*', '.*'), file)):
            ps += ids
    ps = sorted(set(ps + ['C01']))
    return ps

def check_one(args):
    i, diff = args
    name = os.path.basename(diff)[:-5]
    out = os.path.dirname(os.path.dirname(diff))
    m = json.load(open(f'{out}/{name}.json'))
    ps = props_for(m['file'], ANCH)
    wt = f'/tmp/mutck{i}'
    if not os.path.isdir(wt):
        sh(f'git worktree add -q --detach {wt} HEAD', REPO)
    sh('git checkout -q -- . && git clean -fdq', wt)
    rc, o = sh(f'git apply {diff}', wt)
    caught = []
    for p in ps:
        rc, o = sh(f'VERIF_REPO={wt} VERIF_EVIDENCE_DIR={wt}/.evidence VERIF_SEED=1 ./vcheck {p} --tier quick 2>&1', '/verif', timeout=900)
        if 'VIOLATION' in o:
            caught.append(p)
            break
    sh('git checkout -q -- . && git clean -fdq', wt)
    return name, m['op'], f'{m["file"]}:{m["line"]}', ','.join(caught) if caught else 'missed(' + ','.join(ps) + ')'

ALLPROPS = ['C%02d' % i for i in range(1, 21) if i != 16]

def recheck_one(args):
    """second pass for a missed mutant: every property that was not tried yet"""
    i, (name, tried) = args
    out = RECHECK_OUT
    m = json.load(open(f'{out}/{name}.json'))
    wt = f'/tmp/mutck{i}'
    if not os.path.isdir(wt):
        sh(f'git worktree add -q --detach {wt} HEAD', REPO)
    sh('git checkout -q -- . && git clean -fdq', wt)
    sh(f'git apply {out}/surv/{name}.diff', wt)
    caught = []
    for p in ALLPROPS:
        if p in tried:
            continue
        rc, o = sh(f'VERIF_REPO={wt} VERIF_EVIDENCE_DIR={wt}/.evidence VERIF_SEED=1 ./vcheck {p} --tier quick 2>&1', '/verif', timeout=900)
        if 'VIOLATION' in o:
            caught.append(p)
            break
    sh('git checkout -q -- . && git clean -fdq', wt)
    return name, m['op'], f'{m["file"]}:{m["line"]}', ','.join(caught) if caught else 'missed(all)'

def recheck(out, workers=3):
    global RECHECK_OUT
    RECHECK_OUT = out
    items = []
    for l in open(f'{out}/results.tsv'):
        f = l.rstrip('\n').split('\t')
        if f[3].startswith('missed('):
            items.append((f[0], f[3][7:-1].split(',')))
    done = set()
    rp = f'{out}/results2.tsv'
    if os.path.exists(rp):
        done = {l.split('\t')[0] for l in open(rp)}
    items = [it for it in items if it[0] not in done]
    import threading
    lock = threading.Lock()
    def fn(a):
        r = recheck_one(a)
        with lock:
            open(rp, 'a').write('\t'.join(r) + '\n')
        return r
    pool_run(fn, items, workers)
    for i in range(workers):
        sh(f'git worktree remove --force /tmp/mutck{i}', REPO)
    sh('git worktree prune', REPO)

def check(out, workers=3):
    global ANCH
    ANCH = anchors()
    done = set()
    rp = f'{out}/results.tsv'
    if os.path.exists(rp):
        done = {l.split('\t')[0] for l in open(rp)}
    items = [d for d in sorted(glob.glob(f'{out}/surv/*.diff')) if os.path.basename(d)[:-5] not in done]
    import threading
    lock = threading.Lock()
    def fn(a):
        r = check_one(a)
        with lock:
            open(rp, 'a').write('\t'.join(r) + '\n')
        return r
    pool_run(fn, items, workers)
    for i in range(workers):
        sh(f'git worktree remove --force /tmp/mutck{i}', REPO)
    sh('git worktree prune', REPO)

if __name__ == '__main__':
    cmd = sys.argv[1]
    if cmd == 'gen':
        gen(sys.argv[2], int(sys.argv[3]) if len(sys.argv) > 3 else 400, int(sys.argv[4]) if len(sys.argv) > 4 else 1)
    elif cmd == 'survivors':
        survivors(sys.argv[2], int(sys.argv[3]) if len(sys.argv) > 3 else 6)
    elif cmd == 'recheck':
        recheck(sys.argv[2], int(sys.argv[3]) if len(sys.argv) > 3 else 3)
    elif cmd == 'check':
        check(sys.argv[2], int(sys.argv[3]) if len(sys.argv) > 3 else 3)
