HOOK_COMMITS = ["9f813e6"]
NOT_APPLICABLE = {}
CLAIMED = {
 "C01": dict(category="exploration", technique="bounded-exhaustive token enumeration + rapid property-based generation (token soups, fixture mutation, include/macro graphs, option sets) with a crash/hang journal; oracle: no panic, no fatal, no hang, no runtime fault reported as a diagnostic, accepted => serialises",
   text="Generated-input search over byte strings, multi-file projects, macro graphs and option sets against a totality oracle; exhaustive for all token sequences of length <= 2 over a 78-token alphabet after 36 scanner-state prefixes (length 3 over a 31-token alphabet in the thorough tier); sampling beyond. It cannot show absence beyond those bounds.",
   note="Worker isolation: panics are recovered in-process, process-fatal outcomes (stack overflow) and hangs (30 s limit) are recovered from a per-shard journal and re-confirmed in a fresh process. Faults of the pinned schema library that /repo cannot repair are listed in known_findings.json by origin frame (overlay of the library's two panic converters).",
   design_ref="DESIGN.md 6 C01"),
 "C14": dict(category="exploration", technique="bounded-exhaustive token enumeration + rapid generation over the scanner alone; oracle: lexeme well-formedness, schema-library Len() as reference for body extent, independent trivia recogniser for every gap",
   text="Every input the scanner reads to EOF without error is checked: lexemes inside the input, ordered, non-overlapping, keywords known to the directive table, schema/enum lexemes exactly as long as the schema library delimits them, regex bodies slash-delimited, and every byte outside lexemes accepted by an independent recogniser of trivia. Exhaustive up to the same token bounds as C01.",
   note="The schema library's Len() is trusted as the definition of 'one value'; the trivia recogniser encodes the README's comment/annotation rules plus the one rule learned from fixtures (a '#' on a '//' annotation line starts a line comment).",
   design_ref="DESIGN.md 6 C14"),
}
