#!/bin/bash
# usage: tools/seedtest.sh <patch> <CNN> [more CNN...]
# Applies a seeded change to a scratch worktree of /repo HEAD (never to /repo itself), runs the
# given checks against that worktree (VERIF_REPO), and removes the worktree.
patch="$1"; shift
wt=$(mktemp -d /tmp/seedwt.XXXXXX)
cd /repo && git worktree add -q --detach "$wt" HEAD || exit 2
cleanup() { cd /repo; git worktree remove --force "$wt" 2>/dev/null; git worktree prune; }
trap cleanup EXIT
cd "$wt"
if ! git apply -3 "$patch" 2>/tmp/seedtest.err; then echo "PATCH DOES NOT APPLY: $(head -3 /tmp/seedtest.err)"; exit 3; fi
for p in "$@"; do
  out=$(cd /verif && VERIF_REPO="$wt" VERIF_EVIDENCE_DIR="$wt/.evidence" VERIF_SEED=${VERIF_SEED:-1} ./vcheck $p --tier ${TIER:-quick} 2>&1 | grep -v "^KNOWN")
  if echo "$out" | grep -q "^VIOLATION"; then
    echo "$p: CAUGHT  $(echo "$out" | grep -m1 'campaign=' | cut -c1-160)"
  elif echo "$out" | grep -q "INCONCLUSIVE"; then
    echo "$p: inconclusive $(echo "$out" | grep -m1 INCONCLUSIVE | cut -c1-200)"
  else
    echo "$p: missed   $(echo "$out" | tail -1 | cut -c1-120)"
  fi
done
