#!/bin/bash
# usage: tools/seedtest.sh <patch> <CNN> [more CNN...]
# Applies a seeded change to /repo, runs the quick tier of the given checks, and restores /repo.
patch="$1"; shift
cd /repo || exit 2
if [ -n "$(git status --porcelain)" ]; then echo "repo not clean"; exit 2; fi
if ! git apply -3 "$patch" 2>/tmp/seedtest.err; then echo "PATCH DOES NOT APPLY: $(head -3 /tmp/seedtest.err)"; git checkout -- . ; exit 3; fi
git reset -q 2>/dev/null
for p in "$@"; do
  out=$(cd /verif && VERIF_SEED=${VERIF_SEED:-1} ./vcheck $p --tier ${TIER:-quick} 2>&1 | grep -v "^KNOWN")
  rc=$?
  if echo "$out" | grep -q "^VIOLATION"; then
    echo "$p: CAUGHT  $(echo "$out" | grep -m1 'campaign=' | cut -c1-160)"
  elif echo "$out" | grep -q "INCONCLUSIVE"; then
    echo "$p: inconclusive $(echo "$out" | grep -m1 INCONCLUSIVE | cut -c1-200)"
  else
    echo "$p: missed   $(echo "$out" | tail -1 | cut -c1-120)"
  fi
done
cd /repo && git checkout -- . && git clean -fdq -- . 2>/dev/null
git status --porcelain | head -3
