#!/bin/bash
# usage: tools/confirmseed.sh <CNN> <n> [patchfile] [demofile]
# Confirms a seeded change in a scratch worktree of /repo HEAD: the demo passes at HEAD, and with
# the patch the suite passes and the demo fails. On success stores it under /verif/seeded/<CNN>-<n>/.
set -u
id=$1; n=$2
patch=${3:-/tmp/seed-out/$id/patch$n.diff}
demo=${4:-/tmp/seed-out/$id/demo${n}_test.go}
export GOFLAGS=-mod=mod GOPROXY=off GOSUMDB=off GOTOOLCHAIN=local
wt=/tmp/confirm-$id-$n
cd /repo && git worktree add -q --detach $wt HEAD || exit 2
trap "cd /repo; git worktree remove --force $wt; git worktree prune" EXIT
cd $wt
pkgdir=test
if grep -q "^package seeddemo" "$demo"; then pkgdir=test/seeddemo; mkdir -p $wt/test/seeddemo; fi
if grep -q "^package core" "$demo"; then pkgdir=core; fi
if grep -q "^package catalog" "$demo"; then pkgdir=catalog; fi
if grep -q "^package scanner" "$demo"; then pkgdir=scanner; fi
if grep -q "^package kit" "$demo"; then pkgdir=kit; fi
if grep -q "^package jerr" "$demo"; then pkgdir=jerr; fi
if grep -q "^package directive" "$demo"; then pkgdir=directive; fi
cp "$demo" $pkgdir/seed_demo${n}_test.go
run=$(grep -o "func Test[A-Za-z0-9_]*" "$demo" | sed 's/func //' | paste -sd'|')
race=""
if grep -qi "\-race" "$demo"; then race="-race"; fi
if ! go test $race -vet=off -count=1 -run "^($run)\$" ./$pkgdir/ > /tmp/confirm.head.log 2>&1; then echo "$id-$n: demo FAILS at HEAD (not a valid seed)"; tail -5 /tmp/confirm.head.log; exit 1; fi
if ! git apply -3 "$patch" 2>/tmp/confirm.apply.log; then echo "$id-$n: patch does not apply: $(head -2 /tmp/confirm.apply.log)"; exit 1; fi
git reset -q
rm -f $pkgdir/seed_demo${n}_test.go
if ! go build ./... >/tmp/confirm.build.log 2>&1; then echo "$id-$n: does not build"; exit 1; fi
if ! go test -vet=off -count=1 ./... > /tmp/confirm.suite.log 2>&1; then echo "$id-$n: SUITE FAILS with the patch"; grep -E "^(--- FAIL|FAIL)" /tmp/confirm.suite.log | head -5; exit 1; fi
cp "$demo" $pkgdir/seed_demo${n}_test.go
if go test $race -vet=off -count=1 -run "^($run)\$" ./$pkgdir/ > /tmp/confirm.patched.log 2>&1; then echo "$id-$n: demo PASSES with the patch (not a valid seed)"; exit 1; fi
rm -f $pkgdir/seed_demo${n}_test.go
out=/verif/seeded/$id-$n
mkdir -p $out
git diff > $out/patch.diff
cp "$demo" $out/demo_test.go
echo "$id-$n: CONFIRMED (demo passes at HEAD; with patch: suite passes, demo fails) -> $out"
