#!/bin/bash
# For every "fixed" entry of known_findings.json that has a reproducer: check that the reproducer
# FAILS on the parent of the fix commit and PASSES on /repo HEAD (scratch worktrees, removed afterwards).
cd /verif
python3 - <<'PY' > /tmp/fixed.list
import json
for k in json.load(open('known_findings.json')):
    if k['status']=='fixed' and k.get('replay') and k.get('commit'):
        print(k['property'], k['commit'], k['replay'])
PY
while read prop commit replay; do
  wt=$(mktemp -d /tmp/vfix.XXXXXX)
  (cd /repo && git worktree add -q --detach "$wt" "$commit^") || { echo "$prop $commit: cannot check out"; continue; }
  (cd "$wt" && git merge-base --is-ancestor 3192dde HEAD 2>/dev/null || git cherry-pick -n 3192dde >/dev/null 2>&1)
  before=$(VERIF_REPO="$wt" VERIF_EVIDENCE_DIR="$wt/.ev" ./vcheck $prop --replay "$replay" 2>&1 | grep -c "^VIOLATION")
  after=$(./vcheck $prop --replay "$replay" 2>&1 | grep -c "^VIOLATION")
  if [ "$before" = "1" ] && [ "$after" = "0" ]; then echo "OK   $prop $commit $replay: fails before the fix, passes after"; else echo "BAD  $prop $commit $replay: before=$before after=$after"; fi
  (cd /repo && git worktree remove --force "$wt"; git worktree prune)
done < /tmp/fixed.list
