#!/bin/bash
# Runs every confirmed seed against its own property's check (quick tier), 6 at a time.
cd /verif
ls -d seeded/C*-* | xargs -P 6 -I{} bash -c 's=$(basename {}); p=${s%-*}; echo "$s $(tools/seedtest.sh /verif/{}/patch.diff $p | cut -c1-200)"' | sort
