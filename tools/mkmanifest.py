#!/usr/bin/env python3
"""Regenerates MANIFEST.json from the table below (kept here so the manifest stays valid and uniform)."""
import json, os
here = os.path.dirname(os.path.dirname(os.path.abspath(__file__)))
props = [json.loads(l) for l in open(os.path.join(here, 'properties.jsonl'))]
ids = [p['id'] for p in props]

# id -> (category, technique, level text, level note, design ref)
CLAIMED = {}
exec(open(os.path.join(here, 'tools', 'claims.py')).read())

checks = []
for i in ids:
    if i not in CLAIMED:
        continue
    c = CLAIMED[i]
    checks.append({
        "property_id": i,
        "quick_cmd": f"./vcheck {i} --tier quick",
        "thorough_cmd": f"./vcheck {i} --tier thorough",
        "evidence_file": f"/verif/evidence/{i}.json",
        "replay_cmd_template": f"./vcheck {i} --replay {{path}}",
        "engine": "vcheck",
        "level_claimed": {"category": c["category"], "text": c["text"], "design_ref": c["design_ref"]},
        "level_note": c["note"],
        "technique": c["technique"],
    })
na = [{"property_id": i, "reason": NOT_APPLICABLE.get(i, "check not built yet in this session; nothing is claimed for it")} for i in ids if i not in CLAIMED]
m = {
    "version": 1,
    "setup_cmd": "./setup.sh",
    "hooks": {
        "guard": "verif",
        "enable": "go test -c -tags verif ./props (module verif, replace github.com/jsightapi/jsight-api-go-library => /repo)",
        "baseline_off_cmd": "cd /repo && go test -mod=mod -vet=off -count=1 -timeout 25m ./...",
        "source_commits": HOOK_COMMITS,
        "add_only": True,
    },
    "engines": [{
        "name": "vcheck",
        "path": "/verif/vcheck",
        "serves_properties": [c["property_id"] for c in checks],
        "kind_free_text": "property-based testing and fuzzing: pgregory.net/rapid generators with shrinking, bounded-exhaustive enumeration over small alphabets, oracles = reference models / metamorphic relations / invariants; sharded over worker processes with a crash journal",
    }],
    "checks": checks,
    "not_applicable": na,
    "notes": "Every check is ./vcheck CNN --tier quick|thorough; VERIF_SEED selects the rapid/enumeration seed. Evidence is written by the driver from the merged shard statistics. Known findings: known_findings.json.",
}
json.dump(m, open(os.path.join(here, 'MANIFEST.json'), 'w'), indent=1)
print("claimed:", [c["property_id"] for c in checks])
