#!/usr/bin/env python3
import json,glob,sys
seen=set()
for f in sorted(glob.glob(f'/verif/replays/{sys.argv[1]}-*.json')):
    d=json.load(open(f))
    if d['key'] in seen: continue
    seen.add(d['key'])
    print('=====', f, '\nKEY', d['key']); print(d['msg'][:int(sys.argv[2]) if len(sys.argv)>2 else 1500])
