#!/bin/bash
# usage: tools/runall.sh quick|thorough [seed]   - runs every check once, prints a summary line per property
tier=${1:-quick}; seed=${2:-1}
cd "$(dirname "$0")/.."
for i in 01 02 03 04 05 06 07 08 09 10 11 12 13 14 15 16 17 18 19 20; do
  s=$(date +%s)
  out=$(VERIF_SEED=$seed ./vcheck C$i --tier $tier 2>&1); rc=$?
  e=$(( $(date +%s) - s ))
  echo "C$i rc=$rc ${e}s $(echo "$out" | grep -v '^KNOWN' | grep -E 'VIOLATION|INCONCLUSIVE|cases' | head -3 | tr '\n' ' ' | cut -c1-260)"
done
