#!/usr/bin/env python3
"""mkfinding.py PROP CAMPAIGN KEY CASE_JSON known|fixed NAME WHAT [COMMIT]
Writes a hand-made replay file (for a case whose failure was observed before a repair) and lists it."""
import json, sys, os
here = os.path.dirname(os.path.dirname(os.path.abspath(__file__)))
prop, camp, key, case, status, name, what = sys.argv[1:8]
commit = sys.argv[8] if len(sys.argv) > 8 else ""
dst = f"replays/{status}/{prop}-{name}.json"
os.makedirs(os.path.join(here, os.path.dirname(dst)), exist_ok=True)
json.dump({"property": prop, "campaign": camp, "key": key, "msg": what, "case": json.loads(case)}, open(os.path.join(here, dst), 'w'), indent=1)
kf = json.load(open(os.path.join(here, 'known_findings.json')))
kf = [k for k in kf if k.get('replay') != dst]
e = {"property": prop, "key": key, "status": status, "what": what, "replay": dst}
if commit: e["commit"] = commit
kf.append(e)
json.dump(kf, open(os.path.join(here, 'known_findings.json'), 'w'), indent=1)
print("added", dst)
