#!/usr/bin/env python3
"""promote.py <replay.json> known|fixed <short-name> "<what fails>" [commit]
Copies a replay file produced by a check under replays/known|fixed/ and lists it in known_findings.json."""
import json, sys, os, shutil
here = os.path.dirname(os.path.dirname(os.path.abspath(__file__)))
src, status, name, what = sys.argv[1:5]
commit = sys.argv[5] if len(sys.argv) > 5 else ""
r = json.load(open(src))
dst = f"replays/{status}/{r['property']}-{name}.json"
os.makedirs(os.path.join(here, os.path.dirname(dst)), exist_ok=True)
json.dump(r, open(os.path.join(here, dst), 'w'), indent=1)
kf = json.load(open(os.path.join(here, 'known_findings.json')))
kf = [k for k in kf if not (k['property'] == r['property'] and k['key'] == r['key'] and k.get('replay') == dst)]
e = {"property": r['property'], "key": r['key'], "status": status, "what": what, "replay": dst}
if commit: e["commit"] = commit
kf.append(e)
json.dump(kf, open(os.path.join(here, 'known_findings.json'), 'w'), indent=1)
print("added", dst)
