// vcheck is the driver of the property checks: it builds the test binary from
// /repo's current working tree, runs the property's test sharded over child
// processes, recovers cases that killed or wedged a child from the journal,
// applies the known-findings protocol, merges the shard statistics into
// evidence/<id>.json and prints VIOLATION / KNOWN-FINDING lines.
//
// exit 0: property held on everything explored; exit 1: violation(s);
// exit 2: inconclusive (build failure, time budget, infrastructure problem).
package main

import (
	"bytes"
	"crypto/sha256"
	"encoding/binary"
	"encoding/hex"
	"encoding/json"
	"flag"
	"fmt"
	"os"
	"os/exec"
	"path/filepath"
	"regexp"
	"sort"
	"strconv"
	"strings"
	"sync"
	"syscall"
	"time"
)

type knownFinding struct {
	Property string `json:"property"`
	Key      string `json:"key"`
	Status   string `json:"status"`
	What     string `json:"what"`
	Replay   string `json:"replay,omitempty"`
	Commit   string `json:"commit,omitempty"`
}

type campaignStats struct {
	Evaluations int64 `json:"evaluations"`
	NonTrivial  int64 `json:"nontrivial"`
	Exhaustive  bool  `json:"exhaustive"`
	Planned     int64 `json:"planned"`
}

type violation struct {
	Campaign string `json:"campaign"`
	Key      string `json:"key"`
	Msg      string `json:"msg"`
	Replay   string `json:"replay"`
}

type shardOut struct {
	Property     string                    `json:"property"`
	Tier         string                    `json:"tier"`
	Seed         uint64                    `json:"seed"`
	Shard        int                       `json:"shard"`
	Rule         string                    `json:"rule"`
	Level        string                    `json:"level"`
	Assumptions  []string                  `json:"assumptions"`
	Campaigns    map[string]*campaignStats `json:"campaigns"`
	Classes      map[string]int64          `json:"classes"`
	Required     []string                  `json:"required_classes"`
	Samples      []any                     `json:"samples"`
	KnownHits    map[string]int64          `json:"known_hits"`
	KnownSamples map[string]any            `json:"known_samples"`
	Excluded     map[string]int64          `json:"excluded"`
	Violations   []violation               `json:"violations"`
	Notes        []string                  `json:"notes"`
	WallS        float64                   `json:"wall_s"`
	Done         bool                      `json:"done"`
}

type replayFile struct {
	Property string          `json:"property"`
	Campaign string          `json:"campaign"`
	Key      string          `json:"key"`
	Msg      string          `json:"msg"`
	Case     json.RawMessage `json:"case"`
}

var (
	verifDir string
	workDir  string
	binDir   string
)

func goEnv() []string {
	env := os.Environ()
	env = append(env, "GOFLAGS=-mod=mod", "GOPROXY=off", "GOSUMDB=off", "GOTOOLCHAIN=local", "GONOSUMDB=*", "GONOSUMCHECK=1")
	return env
}

func fatal2(format string, a ...any) {
	fmt.Printf("INCONCLUSIVE: "+format+"\n", a...)
	os.Exit(2)
}

// build compiles the props test binary from /repo's working tree (through the
// replace directive) with the verif tag. The binary is built under a private
// name and renamed, so concurrent drivers do not clash.
func build(race bool, fuzzTarget ...string) string {
	name := "props.test"
	args := []string{"test", "-c", "-tags", "verif", "-vet=off"}
	if race {
		name = "props.race.test"
		args = append(args, "-race")
	}
	if len(fuzzTarget) > 0 {
		name = "props.fuzz.test"
		args = append(args, "-fuzz=^"+fuzzTarget[0]+"$")
	}
	tmp := filepath.Join(binDir, fmt.Sprintf(".%s.%d", name, os.Getpid()))
	ov := overlayFile()
	if ov != "" {
		defer os.Remove(ov)
	}
	modfile := altModFile()
	if modfile != "" {
		defer os.Remove(modfile)
		defer os.Remove(strings.TrimSuffix(modfile, ".mod") + ".sum")
	}
	run := func(withOverlay bool) ([]byte, error) {
		a := append([]string{}, args...)
		if modfile != "" {
			a = append(a, "-modfile", modfile)
		}
		env := goEnv()
		if withOverlay {
			a = append(a, "-overlay", ov)
			env = append(env, "GODEBUG=goindex=0")
		}
		a = append(a, "-o", tmp, "./props")
		cmd := exec.Command("go", a...)
		cmd.Dir = verifDir
		cmd.Env = env
		return cmd.CombinedOutput()
	}
	var out []byte
	var err error
	if ov != "" {
		out, err = run(true)
	}
	if ov == "" || err != nil {
		if ov != "" {
			fmt.Printf("note: build with the schema-library overlay failed, building without it (fault attribution falls back to the message)\n")
		}
		out, err = run(false)
	}
	if err != nil {
		os.Remove(tmp)
		fatal2("build of the check failed (the library or the harness does not compile):\n%s", out)
	}
	final := filepath.Join(binDir, fmt.Sprintf("%s.%d", name, os.Getpid()))
	if err := os.Rename(tmp, final); err != nil {
		fatal2("rename: %v", err)
	}
	return final
}

// altModFile: when VERIF_REPO names another working tree of the library than
// /repo (scratch worktrees used to try seeded changes, background runs), the
// check is built against it through a copy of go.mod with the replace
// directive redirected.
func altModFile() string {
	repo := os.Getenv("VERIF_REPO")
	if repo == "" || repo == "/repo" {
		return ""
	}
	b, err := os.ReadFile(filepath.Join(verifDir, "go.mod"))
	if err != nil {
		return ""
	}
	nb := strings.Replace(string(b), "=> /repo", "=> "+repo, 1)
	p := filepath.Join(binDir, fmt.Sprintf("alt.%d.mod", os.Getpid()))
	if os.WriteFile(p, []byte(nb), 0o644) != nil {
		return ""
	}
	if sum, err := os.ReadFile(filepath.Join(verifDir, "go.sum")); err == nil {
		_ = os.WriteFile(strings.TrimSuffix(p, ".mod")+".sum", sum, 0o644)
	}
	return p
}

// overlayFile writes the -overlay description that replaces the schema
// library's two panic-to-error converters by the logging copies in overlay/.
func overlayFile() string {
	cmd := exec.Command("go", "list", "-m", "-f", "{{.Dir}}", "github.com/jsightapi/jsight-schema-go-library")
	cmd.Dir = verifDir
	cmd.Env = goEnv()
	out, err := cmd.Output()
	dir := strings.TrimSpace(string(out))
	if err != nil || dir == "" {
		return ""
	}
	repl := map[string]string{}
	for src, dst := range map[string]string{
		"internal/panics/panics.go":             "overlay/panics.go",
		"internal/lexeme/lexeme_event_error.go": "overlay/lexeme_event_error.go",
	} {
		if _, err := os.Stat(filepath.Join(dir, src)); err != nil {
			return ""
		}
		repl[filepath.Join(dir, src)] = filepath.Join(verifDir, dst)
	}
	b, _ := json.Marshal(map[string]any{"Replace": repl})
	p := filepath.Join(binDir, fmt.Sprintf("overlay.%d.json", os.Getpid()))
	if os.WriteFile(p, b, 0o644) != nil {
		return ""
	}
	return p
}

type shardRun struct {
	shard    int
	exitCode int
	timedOut bool
	log      string
	out      *shardOut
	journal  string
}

func runChild(bin, prop string, extraEnv []string, logPath string, timeout time.Duration, race bool) (int, bool) {
	args := []string{"-test.run", "^Test" + prop + "$", "-test.timeout", "0", "-test.count", "1"}
	cmd := exec.Command(bin, args...)
	cmd.Dir = filepath.Join(verifDir, "props")
	cmd.Env = append(os.Environ(), extraEnv...)
	cmd.Env = append(cmd.Env, "VERIF_DIR="+verifDir)
	if race {
		cmd.Env = append(cmd.Env, "GORACE=halt_on_error=0 log_path="+logPath+".race")
	}
	lf, err := os.Create(logPath)
	if err != nil {
		return 2, false
	}
	defer lf.Close()
	cmd.Stdout = lf
	cmd.Stderr = lf
	cmd.SysProcAttr = &syscall.SysProcAttr{Setpgid: true}
	if err := cmd.Start(); err != nil {
		return 2, false
	}
	done := make(chan error, 1)
	go func() { done <- cmd.Wait() }()
	select {
	case err := <-done:
		if err == nil {
			return 0, false
		}
		if ee, ok := err.(*exec.ExitError); ok {
			if ee.ExitCode() >= 0 {
				return ee.ExitCode(), false
			}
			return 128, false // killed by a signal
		}
		return 2, false
	case <-time.After(timeout):
		_ = syscall.Kill(-cmd.Process.Pid, syscall.SIGKILL)
		<-done
		return 2, true
	}
}

func readShardOut(dir, prop string, shard int) *shardOut {
	b, err := os.ReadFile(filepath.Join(dir, fmt.Sprintf("%s.shard%d.json", prop, shard)))
	if err != nil {
		return nil
	}
	var so shardOut
	if json.Unmarshal(b, &so) != nil {
		return nil
	}
	return &so
}

func readJournal(p string) *replayFile {
	b, err := os.ReadFile(p)
	if err != nil || len(b) < 8 {
		return nil
	}
	n := binary.LittleEndian.Uint64(b[:8])
	if uint64(len(b)) < 8+n {
		return nil
	}
	var rf replayFile
	if json.Unmarshal(b[8:8+n], &rf) != nil {
		return nil
	}
	return &rf
}

var fatalRe = regexp.MustCompile(`(?m)^(fatal error: .*|panic: .*|runtime: goroutine stack exceeds.*)$`)

func fatalKey(log string) string {
	b, _ := os.ReadFile(log)
	if len(b) > 1<<20 {
		b = b[:1<<20]
	}
	m := fatalRe.FindAll(b, 3)
	for _, l := range m {
		s := string(l)
		if strings.HasPrefix(s, "fatal error:") {
			return "fatal: " + strings.TrimPrefix(s, "fatal error: ")
		}
	}
	for _, l := range m {
		s := string(l)
		if strings.HasPrefix(s, "panic:") {
			if len(s) > 100 {
				s = s[:100]
			}
			return "process-panic: " + strings.TrimPrefix(s, "panic: ")
		}
	}
	return "process-died"
}

func writeReplay(rf *replayFile) string {
	b, _ := json.MarshalIndent(rf, "", " ")
	sum := sha256.Sum256(rf.Case)
	dir := filepath.Join(verifDir, "replays")
	_ = os.MkdirAll(dir, 0o755)
	p := filepath.Join(dir, fmt.Sprintf("%s-%s-%s.json", rf.Property, strings.ReplaceAll(rf.Campaign, "/", "_"), hex.EncodeToString(sum[:6])))
	_ = os.WriteFile(p, b, 0o644)
	return p
}

// replayOnce runs one replay file in a fresh process and reports
// (failed, key, msg, died).
func replayOnce(bin, prop, replay, dir string, race bool) (bool, string, string, bool) {
	_ = os.MkdirAll(dir, 0o755)
	os.Remove(filepath.Join(dir, prop+".shard0.json"))
	env := []string{"VERIF_REPLAY=" + replay, "VERIF_OUT=" + dir, "VERIF_SHARD=0", "VERIF_NSHARDS=1", "VERIF_SCRATCH=" + scratchBase()}
	logp := filepath.Join(dir, "replay.log")
	code, timedOut := runChild(bin, prop, env, logp, 5*time.Minute, race)
	so := readShardOut(dir, prop, 0)
	if so != nil && so.Done {
		if len(so.Violations) > 0 {
			return true, so.Violations[0].Key, so.Violations[0].Msg, false
		}
		if code == 0 {
			return false, "", "", false
		}
	}
	if timedOut {
		return true, "hang", "replay did not finish", true
	}
	if code != 0 {
		return true, fatalKey(logp), "process died during replay", true
	}
	return false, "", "", false
}

func scratchBase() string {
	for _, d := range []string{"/dev/shm", os.TempDir()} {
		if st, err := os.Stat(d); err == nil && st.IsDir() {
			probe := filepath.Join(d, fmt.Sprintf(".vprobe%d", os.Getpid()))
			if os.WriteFile(probe, nil, 0o600) == nil {
				os.Remove(probe)
				return d
			}
		}
	}
	return os.TempDir()
}

func main() {
	tier := flag.String("tier", os.Getenv("VERIF_TIER"), "quick|thorough")
	replay := flag.String("replay", "", "replay one case file through the property's oracle")
	shardsFlag := flag.Int("shards", 0, "number of worker processes (default by tier)")
	keep := flag.Bool("keep", false, "keep the work directory")
	flag.Usage = func() { fmt.Println("usage: vcheck [flags] CNN") }
	// allow "vcheck C01 --tier quick"
	var prop string
	args := os.Args[1:]
	if len(args) > 0 && !strings.HasPrefix(args[0], "-") {
		prop = args[0]
		args = args[1:]
	}
	_ = flag.CommandLine.Parse(args)
	if prop == "" && flag.NArg() > 0 {
		prop = flag.Arg(0)
	}
	if !regexp.MustCompile(`^C[0-9]{2}$`).MatchString(prop) {
		flag.Usage()
		os.Exit(2)
	}
	if *tier == "" {
		*tier = "quick"
	}
	if *tier != "quick" && *tier != "thorough" {
		fatal2("unknown tier %q", *tier)
	}
	seed := int64(1)
	if v := os.Getenv("VERIF_SEED"); v != "" {
		if n, err := strconv.ParseInt(v, 10, 64); err == nil {
			seed = n
		}
	}
	exe, _ := os.Executable()
	verifDir = os.Getenv("VERIF_DIR")
	if verifDir == "" {
		verifDir = filepath.Dir(filepath.Dir(exe))
	}
	binDir = filepath.Join(verifDir, ".bin")
	workDir = filepath.Join(verifDir, ".work", fmt.Sprintf("%s-%d", prop, os.Getpid()))
	_ = os.MkdirAll(binDir, 0o755)
	_ = os.MkdirAll(workDir, 0o755)
	if !*keep {
		defer os.RemoveAll(workDir)
	}
	start := time.Now()
	race := prop == "C16"
	bin := build(race)
	defer os.Remove(bin)
	code := run(bin, prop, *tier, seed, *replay, *shardsFlag, race, start)
	os.Remove(bin)
	if !*keep {
		os.RemoveAll(workDir)
	}
	os.Exit(code)
}

func loadKnown(prop string) []knownFinding {
	b, err := os.ReadFile(filepath.Join(verifDir, "known_findings.json"))
	if err != nil {
		return nil
	}
	var kk, out []knownFinding
	if err := json.Unmarshal(b, &kk); err != nil {
		fatal2("known_findings.json: %v", err)
	}
	for _, k := range kk {
		if k.Property == prop {
			out = append(out, k)
		}
	}
	return out
}

func run(bin, prop, tier string, seed int64, replay string, nshards int, race bool, start time.Time) int {
	if replay != "" {
		abs, _ := filepath.Abs(replay)
		failed, key, msg, _ := replayOnce(bin, prop, abs, filepath.Join(workDir, "replay"), race)
		if failed {
			fmt.Printf("replay fails: key=%q\n%s\n", key, msg)
			fmt.Printf("VIOLATION property=%s replay=%s\n", prop, abs)
			return 1
		}
		fmt.Println("replay passes")
		return 0
	}

	known := loadKnown(prop)
	var violations []violation
	var knownLines []string
	knownStatus := map[string]string{}
	// committed reproducers: known ones must still fail (else they are silently
	// obsolete), fixed ones must pass (else the defect is back).
	type repRes struct {
		failed   bool
		key, msg string
	}
	repResults := make([]repRes, len(known))
	{
		var rwg sync.WaitGroup
		sem := make(chan struct{}, 8)
		for i, k := range known {
			if k.Replay == "" {
				continue
			}
			rwg.Add(1)
			go func(i int, k knownFinding) {
				defer rwg.Done()
				sem <- struct{}{}
				defer func() { <-sem }()
				tries := 1
				if k.Status == "known" {
					tries = 6 // some known findings depend on map-iteration order: give them a few runs to show
				}
				var failed bool
				var key, msg string
				for t := 0; t < tries && !failed; t++ {
					failed, key, msg, _ = replayOnce(bin, prop, filepath.Join(verifDir, k.Replay), filepath.Join(workDir, fmt.Sprintf("known%d", i)), race)
				}
				repResults[i] = repRes{failed, key, msg}
			}(i, k)
		}
		rwg.Wait()
	}
	for i, k := range known {
		if k.Replay == "" {
			continue
		}
		rp := filepath.Join(verifDir, k.Replay)
		failed, key, msg := repResults[i].failed, repResults[i].key, repResults[i].msg
		switch k.Status {
		case "known":
			if failed && key == k.Key {
				knownLines = append(knownLines, fmt.Sprintf("KNOWN-FINDING: property=%s %s [key %s]", prop, k.What, k.Key))
				knownStatus[k.Key] = "reproducer still fails"
			} else if failed {
				violations = append(violations, violation{Campaign: "known-reproducer", Key: key, Msg: "reproducer of a known finding now fails differently: " + msg, Replay: rp})
			} else {
				knownStatus[k.Key] = "reproducer no longer fails"
			}
		case "fixed":
			if failed {
				violations = append(violations, violation{Campaign: "fixed-reproducer", Key: key, Msg: "a repaired defect is back: " + msg, Replay: rp})
			}
		}
	}

	if nshards == 0 {
		nshards = 8
		if tier == "thorough" {
			nshards = 14
		}
		if race {
			nshards = 4
		}
	}
	budget := 15 * time.Minute
	if tier == "thorough" {
		budget = 90 * time.Minute
	}
	if v := os.Getenv("VERIF_BUDGET_S"); v != "" {
		if n, err := strconv.Atoi(v); err == nil {
			budget = time.Duration(n) * time.Second
		}
	}
	outDir := filepath.Join(workDir, "out")
	_ = os.MkdirAll(outDir, 0o755)
	scratch, _ := os.MkdirTemp(scratchBase(), "vcheck-"+prop+"-")
	defer os.RemoveAll(scratch)

	runs := make([]*shardRun, nshards)
	var wg sync.WaitGroup
	for s := 0; s < nshards; s++ {
		wg.Add(1)
		go func(s int) {
			defer wg.Done()
			sr := &shardRun{shard: s, log: filepath.Join(workDir, fmt.Sprintf("shard%d.log", s)), journal: filepath.Join(scratch, fmt.Sprintf("journal%d", s))}
			env := []string{
				"VERIF_TIER=" + tier, "VERIF_SEED=" + strconv.FormatInt(seed, 10),
				"VERIF_SHARD=" + strconv.Itoa(s), "VERIF_NSHARDS=" + strconv.Itoa(nshards),
				"VERIF_OUT=" + outDir, "VERIF_JOURNAL=" + sr.journal, "VERIF_SCRATCH=" + scratch,
			}
			sr.exitCode, sr.timedOut = runChild(bin, prop, env, sr.log, budget, race)
			sr.out = readShardOut(outDir, prop, s)
			runs[s] = sr
		}(s)
	}
	wg.Wait()

	inconclusive := []string{}
	for _, sr := range runs {
		if sr.out != nil && sr.out.Done {
			for _, v := range sr.out.Violations {
				if v.Key == "harness" {
					// a panic in a generator or oracle is a broken check, not a violation
					inconclusive = append(inconclusive, fmt.Sprintf("shard %d: campaign %s: %s (see %s)", sr.shard, v.Campaign, v.Msg, tailOf(sr.log)))
					continue
				}
				violations = append(violations, v)
			}
			if sr.exitCode != 0 && len(sr.out.Violations) == 0 {
				inconclusive = append(inconclusive, fmt.Sprintf("shard %d exited %d without a recorded violation (see %s)", sr.shard, sr.exitCode, tailOf(sr.log)))
			}
			continue
		}
		if sr.timedOut {
			inconclusive = append(inconclusive, fmt.Sprintf("shard %d exceeded the time budget of %s", sr.shard, budget))
			continue
		}
		// the process died: take the journalled case
		rf := readJournal(sr.journal)
		if rf == nil {
			inconclusive = append(inconclusive, fmt.Sprintf("shard %d died (exit %d) with no journalled case: %s", sr.shard, sr.exitCode, tailOf(sr.log)))
			continue
		}
		rf.Key = fatalKey(sr.log)
		rf.Msg = "the worker process died while executing this case"
		rp := writeReplay(rf)
		failed, key, _, died := replayOnce(bin, prop, rp, filepath.Join(workDir, fmt.Sprintf("confirm%d", sr.shard)), race)
		if failed && died {
			rf.Key = key
			b, _ := json.MarshalIndent(rf, "", " ")
			_ = os.WriteFile(rp, b, 0o644)
			isKnown := false
			for _, k := range known {
				if k.Status == "known" && k.Key == key {
					isKnown = true
				}
			}
			if isKnown {
				inconclusive = append(inconclusive, fmt.Sprintf("shard %d was killed by the known finding %q; its remaining cases were not run", sr.shard, key))
				os.Remove(rp)
			} else {
				violations = append(violations, violation{Campaign: rf.Campaign, Key: key, Msg: rf.Msg + " (confirmed in a fresh process)", Replay: rp})
			}
		} else if failed {
			violations = append(violations, violation{Campaign: rf.Campaign, Key: key, Msg: "case journalled by a dead worker fails on replay", Replay: rp})
		} else {
			os.Remove(rp)
			inconclusive = append(inconclusive, fmt.Sprintf("shard %d died (exit %d) but its journalled case passes in isolation (infrastructure?): %s", sr.shard, sr.exitCode, tailOf(sr.log)))
		}
	}

	// native coverage-guided fuzzing (thorough tier of the byte-level properties)
	var fuzzStats map[string]any
	if tier == "thorough" && (prop == "C01" || prop == "C02" || prop == "C09" || prop == "C14") && os.Getenv("VERIF_NOFUZZ") == "" {
		secs := 180
		if v := os.Getenv("VERIF_FUZZ_S"); v != "" {
			if n, err := strconv.Atoi(v); err == nil {
				secs = n
			}
		}
		var fv []violation
		fuzzStats, fv = nativeFuzz(prop, secs, scratch)
		for _, v := range fv {
			isKnown := false
			for _, k := range known {
				if k.Status == "known" && k.Key == v.Key {
					isKnown = true
				}
			}
			if !isKnown {
				violations = append(violations, v)
			}
		}
	}

	// race detector reports (C16): the log files GORACE wrote next to the shard logs
	if race {
		matches, _ := filepath.Glob(filepath.Join(workDir, "shard*.log.race.*"))
		seenRace := map[string]bool{}
		for _, m := range matches {
			b, err := os.ReadFile(m)
			if err != nil || !bytes.Contains(b, []byte("DATA RACE")) {
				continue
			}
			key := "race: " + raceKey(string(b))
			if seenRace[key] {
				continue
			}
			seenRace[key] = true
			isKnown := false
			for _, k := range known {
				if k.Status == "known" && k.Key == key {
					isKnown = true
					knownLines = append(knownLines, fmt.Sprintf("KNOWN-FINDING: property=%s %s [key %s]", prop, k.What, k.Key))
					knownStatus[k.Key] = "reported by the race detector in this run"
				}
			}
			if isKnown {
				continue
			}
			dst := filepath.Join(verifDir, "replays", fmt.Sprintf("%s-race-%d.txt", prop, len(seenRace)))
			_ = os.MkdirAll(filepath.Dir(dst), 0o755)
			if len(b) > 20000 {
				b = b[:20000]
			}
			_ = os.WriteFile(dst, b, 0o644)
			violations = append(violations, violation{Campaign: "race-detector", Key: key, Msg: "the race detector reports a data race: " + key, Replay: dst})
		}
	}

	// merge
	merged := shardOut{Campaigns: map[string]*campaignStats{}, Classes: map[string]int64{}, KnownHits: map[string]int64{}, KnownSamples: map[string]any{}, Excluded: map[string]int64{}}
	hashes := map[uint64]struct{}{}
	reqSet := map[string]bool{}
	perCampaignSamples := map[string]int{}
	for _, sr := range runs {
		so := sr.out
		if so == nil {
			continue
		}
		merged.Rule, merged.Level, merged.Assumptions = so.Rule, so.Level, so.Assumptions
		for n, c := range so.Campaigns {
			m := merged.Campaigns[n]
			if m == nil {
				m = &campaignStats{Exhaustive: c.Exhaustive}
				merged.Campaigns[n] = m
			}
			m.Evaluations += c.Evaluations
			m.NonTrivial += c.NonTrivial
			m.Planned += c.Planned
			m.Exhaustive = m.Exhaustive && c.Exhaustive
		}
		for k, v := range so.Classes {
			merged.Classes[k] += v
		}
		for k, v := range so.KnownHits {
			merged.KnownHits[k] += v
		}
		for k, v := range so.KnownSamples {
			if _, ok := merged.KnownSamples[k]; !ok {
				merged.KnownSamples[k] = v
			}
		}
		for k, v := range so.Excluded {
			merged.Excluded[k] += v
		}
		for _, r := range so.Required {
			reqSet[r] = true
		}
		merged.Notes = append(merged.Notes, so.Notes...)
		for _, s := range so.Samples {
			camp := ""
			if m, ok := s.(map[string]any); ok {
				camp, _ = m["campaign"].(string)
			}
			if perCampaignSamples[camp] < 2 && len(merged.Samples) < 24 {
				perCampaignSamples[camp]++
				merged.Samples = append(merged.Samples, s)
			}
		}
		hb, err := os.ReadFile(filepath.Join(outDir, fmt.Sprintf("%s.shard%d.hashes", prop, sr.shard)))
		if err == nil {
			for i := 0; i+8 <= len(hb); i += 8 {
				hashes[binary.LittleEndian.Uint64(hb[i:])] = struct{}{}
			}
		}
	}
	var evals int64
	allExhaustive := len(merged.Campaigns) > 0
	for _, c := range merged.Campaigns {
		evals += c.Evaluations
		if !c.Exhaustive {
			allExhaustive = false
		}
	}
	var missing []string
	for r := range reqSet {
		if merged.Classes[r] == 0 {
			missing = append(missing, r)
		}
	}
	sort.Strings(missing)

	// de-duplicate violations by key
	seen := map[string]bool{}
	var uniq []violation
	for _, v := range violations {
		if seen[v.Key] {
			continue
		}
		seen[v.Key] = true
		uniq = append(uniq, v)
	}

	// every listed known finding gets its line, with what this run saw of it
	for _, kf := range known {
		if kf.Status != "known" {
			continue
		}
		if _, done := knownStatus[kf.Key]; done {
			if n := merged.KnownHits[kf.Key]; n > 0 {
				knownStatus[kf.Key] += fmt.Sprintf("; hit by %d generated cases", n)
			}
			continue
		}
		if n := merged.KnownHits[kf.Key]; n > 0 {
			knownLines = append(knownLines, fmt.Sprintf("KNOWN-FINDING: property=%s %s [key %s, hit by %d generated cases]", prop, kf.What, kf.Key, n))
			knownStatus[kf.Key] = fmt.Sprintf("hit by %d generated cases", n)
		} else if kf.Replay == "" {
			knownLines = append(knownLines, fmt.Sprintf("KNOWN-FINDING: property=%s %s [key %s, not hit by this run's cases]", prop, kf.What, kf.Key))
			knownStatus[kf.Key] = "listed; not hit by this run's cases"
		}
	}
	sort.Strings(knownLines)
	if os.Getenv("VERIF_TRIAGE") != "" {
		for k, n := range merged.KnownHits {
			if strings.HasPrefix(k, "TRIAGE ") {
				b, _ := json.Marshal(merged.KnownSamples[k])
				if len(b) > 1500 {
					b = b[:1500]
				}
				fmt.Printf("%s x%d\n   %s\n", k, n, b)
			}
		}
	}

	level := merged.Level
	if level == "" {
		level = "exploration"
	}
	if len(merged.Samples) == 0 {
		merged.Samples = []any{"(no case was sampled)"}
	}
	cov := map[string]any{
		"evaluations":         evals,
		"distinct_nontrivial": len(hashes),
		"rule":                merged.Rule,
		"samples":             merged.Samples,
		"exhaustive":          allExhaustive,
		"campaigns":           merged.Campaigns,
		"classes":             merged.Classes,
		"required_classes":    keys(reqSet),
		"missing_classes":     missing,
		"known_findings":      knownStatus,
		"known_finding_hits":  merged.KnownHits,
		"excluded_by_known":   merged.Excluded,
		"notes":               merged.Notes,
		"inconclusive":        inconclusive,
		"shards":              nshards,
	}
	if fuzzStats != nil {
		cov["native_fuzz"] = fuzzStats
	}
	if len(uniq) > 0 {
		cov["violations"] = uniq
	}
	if merged.Assumptions == nil {
		merged.Assumptions = []string{}
	}
	ev := map[string]any{
		"property_id": prop,
		"tier":        tier,
		"seed":        seed,
		"level":       level,
		"coverage":    cov,
		"assumptions": merged.Assumptions,
		"wall_s":      time.Since(start).Seconds(),
		"violations":  len(uniq),
	}
	evDir := filepath.Join(verifDir, "evidence")
	if d := os.Getenv("VERIF_EVIDENCE_DIR"); d != "" {
		evDir = d // trial runs against scratch trees keep their evidence out of /verif/evidence
	}
	_ = os.MkdirAll(evDir, 0o755)
	eb, _ := json.MarshalIndent(ev, "", " ")
	_ = os.WriteFile(filepath.Join(evDir, prop+".json"), append(eb, '\n'), 0o644)

	for _, l := range knownLines {
		fmt.Println(l)
	}
	fmt.Printf("%s %s seed=%d: %d cases, %d distinct non-trivial, %d campaigns, %.1fs\n", prop, tier, seed, evals, len(hashes), len(merged.Campaigns), time.Since(start).Seconds())
	if len(uniq) > 0 {
		for _, v := range uniq {
			fmt.Printf("  campaign=%s key=%q\n  %s\n", v.Campaign, v.Key, firstLine(v.Msg))
			fmt.Printf("VIOLATION property=%s replay=%s\n", prop, v.Replay)
		}
		return 1
	}
	if len(inconclusive) > 0 {
		for _, l := range inconclusive {
			fmt.Println("INCONCLUSIVE:", l)
		}
		return 2
	}
	if len(missing) > 0 {
		fmt.Printf("INCONCLUSIVE: required case classes never generated: %v\n", missing)
		return 2
	}
	if evals == 0 || len(hashes) < 2 {
		fmt.Println("INCONCLUSIVE: no non-trivial cases were generated")
		return 2
	}
	return 0
}

var fuzzExecRe = regexp.MustCompile(`execs: (\d+) .*new interesting: (\d+) \(total: (\d+)\)`)
var fuzzFailRe = regexp.MustCompile(`Failing input written to (\S+)`)
var fuzzKeyRe = regexp.MustCompile(`FUZZ-VIOLATION key=("(?:[^"\\]|\\.)*")`)

// nativeFuzz runs the property's FuzzCNN target for secs seconds from the
// instrumented test binary; a crasher is converted into a replay file of the
// campaign "native-fuzz".
func nativeFuzz(prop string, secs int, scratch string) (map[string]any, []violation) {
	target := "Fuzz" + prop
	bin := build(false, target)
	defer os.Remove(bin)
	cache := filepath.Join(scratch, "fuzzcache")
	_ = os.MkdirAll(cache, 0o755)
	propsDir := filepath.Join(verifDir, "props")
	crashDir := filepath.Join(propsDir, "testdata", "fuzz", target)
	_ = os.RemoveAll(crashDir)
	cmd := exec.Command(bin, "-test.run", "^$", "-test.fuzz", "^"+target+"$", "-test.fuzztime", fmt.Sprintf("%ds", secs),
		"-test.fuzzcachedir", cache, "-test.parallel", "14")
	cmd.Dir = propsDir
	cmd.Env = append(os.Environ(), "VERIF_DIR="+verifDir, "VERIF_SCRATCH="+scratch)
	out, _ := cmd.CombinedOutput()
	stats := map[string]any{"target": target, "seconds": secs, "seed_corpus": "hostile constants, a quarter of the fixtures, the scanner-state prefixes", "note": "Go's native fuzzer cannot be pinned to a seed; its saved failing input is the reproducible unit"}
	if ms := fuzzExecRe.FindAllStringSubmatch(string(out), -1); len(ms) > 0 {
		m := ms[len(ms)-1]
		stats["execs"], _ = strconv.Atoi(m[1])
		stats["interesting_inputs"], _ = strconv.Atoi(m[3])
	}
	var vv []violation
	if m := fuzzFailRe.FindStringSubmatch(string(out)); m != nil {
		key := "native-fuzz"
		if km := fuzzKeyRe.FindStringSubmatch(string(out)); km != nil {
			if k, err := strconv.Unquote(km[1]); err == nil {
				key = k
			}
		}
		data := readFuzzCorpusFile(filepath.Join(propsDir, m[1]))
		rf := &replayFile{Property: prop, Campaign: "native-fuzz", Key: key, Msg: "found by go test -fuzz " + target}
		rf.Case, _ = json.Marshal(data)
		rp := writeReplay(rf)
		vv = append(vv, violation{Campaign: "native-fuzz", Key: key, Msg: "native fuzzing found a failing input: " + key, Replay: rp})
		stats["failing_input"] = rp
	}
	_ = os.RemoveAll(crashDir)
	return stats, vv
}

// readFuzzCorpusFile decodes a Go fuzz corpus file holding one []byte value.
func readFuzzCorpusFile(p string) string {
	b, err := os.ReadFile(p)
	if err != nil {
		return ""
	}
	for _, l := range strings.Split(string(b), "\n") {
		l = strings.TrimSpace(l)
		if strings.HasPrefix(l, "[]byte(") && strings.HasSuffix(l, ")") {
			if s, err := strconv.Unquote(l[len("[]byte(") : len(l)-1]); err == nil {
				return s
			}
		}
	}
	return ""
}

// raceKey names a race by the innermost library frames of its two accesses.
func raceKey(report string) string {
	var frames []string
	lines := strings.Split(report, "\n")
	inBlock := false
	for _, l := range lines {
		t := strings.TrimSpace(l)
		if strings.HasPrefix(t, "Write at") || strings.HasPrefix(t, "Read at") || strings.HasPrefix(t, "Previous write at") || strings.HasPrefix(t, "Previous read at") {
			inBlock = true
			continue
		}
		if inBlock && strings.Contains(t, "jsightapi") && strings.HasSuffix(t, ")") {
			fn := t
			if i := strings.LastIndex(fn, "("); i > 0 {
				fn = fn[:i]
			}
			fn = fn[strings.LastIndex(fn, "/")+1:]
			frames = append(frames, fn)
			inBlock = false
			if len(frames) == 2 {
				break
			}
		}
		if t == "" {
			inBlock = false
		}
	}
	if len(frames) == 0 {
		return "unattributed"
	}
	sort.Strings(frames)
	return strings.Join(frames, " <-> ")
}

func keys(m map[string]bool) []string {
	var out []string
	for k := range m {
		out = append(out, k)
	}
	sort.Strings(out)
	return out
}

func firstLine(s string) string {
	if i := strings.IndexByte(s, '\n'); i >= 0 {
		s = s[:i]
	}
	if len(s) > 300 {
		s = s[:300] + "..."
	}
	return s
}

func tailOf(p string) string {
	b, err := os.ReadFile(p)
	if err != nil {
		return ""
	}
	if len(b) > 600 {
		b = b[len(b)-600:]
	}
	return string(bytes.TrimSpace(b))
}
