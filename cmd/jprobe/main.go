// jprobe validates the given root files with the library and prints verdict,
// diagnostic and catalog size (development aid).
package main

import (
	"fmt"
	"os"

	"github.com/jsightapi/jsight-api-go-library/kit"
)

func main() {
	for _, p := range os.Args[1:] {
		j, err := kit.NewJapi(p)
		if err != nil {
			fmt.Printf("%s: %v\n", p, err)
			continue
		}
		if je := j.ValidateJAPI(); je != nil {
			fmt.Printf("%s: REJECTED index=%d line=%d quote=%q\n  %s\n", p, je.Index(), je.Line(), je.Quote(), je.Error())
			continue
		}
		b, err := j.ToJson()
		if os.Getenv("JPROBE_JSON") != "" {
			fmt.Printf("%s\n", b)
		}
		fmt.Printf("%s: ACCEPTED json=%d bytes err=%v\n", p, len(b), err)
	}
}
