package props

import (
	"testing"

	"pgregory.net/rapid"

	"verif/vlib"
)

func c14Check(src string, info *vlib.Info) *vlib.Failure {
	n, inDomain, hasBody, f := vlib.CheckLex(src)
	if inDomain {
		info.Class("scanned-to-eof")
	} else {
		info.Class("scanner-rejects")
	}
	info.NonTrivial = inDomain && n >= 3 && hasBody
	if len(src) > 300 {
		info.Sample = src[:300] + "..."
	}
	return f
}

func TestC14(t *testing.T) {
	h := vlib.New(t, "C14", "exploration",
		"inputs to the scanner alone: token sequences enumerated after canonical prefixes, rapid token soups, mutated fixtures, the fixtures themselves; the oracle applies to inputs scanned to EOF without error; non-trivial = >= 3 lexemes including a body or annotation; distinct by input hash",
		"the schema library's Len() is the reference for where a schema / enum value ends", "the gap recogniser is written from the language description (README), not from the step functions")
	h.Require("scanned-to-eof", "scanner-rejects")
	// failing inputs of the native fuzz arm (thorough tier, driver-run) replay through this campaign
	vlib.Enum(h, "native-fuzz", false, func(func(string) bool) {}, c14Check)

	vlib.Enum(h, "fixtures", false, func(yield func(string) bool) {
		for i, c := range vlib.Corpus() {
			if h.Mine(i) && !yield(c.Content) {
				return
			}
		}
	}, c14Check)
	vlib.Enum(h, "hostile-constants", false, func(yield func(string) bool) {
		for i, s := range vlib.HostileConstants {
			if h.Mine(i) && !yield(s) {
				return
			}
		}
	}, c14Check)
	for _, joiner := range []string{" ", ""} {
		vlib.Enum(h, "tokenseq-exhaustive-join"+map[string]string{" ": "space", "": "none"}[joiner], true, func(yield func(string) bool) {
			eachTokenSeqJoin(vlib.Prefixes, vlib.Sigma, 2, joiner, h.Mine, yield)
		}, c14Check)
		vlib.Enum(h, "tokenseq-small-alphabet-join"+map[string]string{" ": "space", "": "none"}[joiner], true, func(yield func(string) bool) {
			eachTokenSeqJoin(vlib.Prefixes, vlib.SigmaSmall, h.Pick(2, 3), joiner, h.Mine, yield)
		}, c14Check)
	}
	vlib.Rapid(h, "token-soup", h.N(40000, 2000000), func(t *rapid.T) string {
		pre := rapid.SampledFrom(vlib.Prefixes).Draw(t, "prefix")
		return pre + vlib.GenTokenSoup(t, 14)
	}, c14Check)
	vlib.Rapid(h, "fixture-mutation", h.N(40000, 2000000), vlib.GenMutation, c14Check)
}
