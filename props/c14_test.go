package props

import (
	"testing"

	"pgregory.net/rapid"

	"verif/vlib"
)

func c14Check(src string, info *vlib.Info) *vlib.Failure {
	n, inDomain, hasBody, f := vlib.CheckLex(src)
	if inDomain {
		info.Class("scanned-to-eof")
	} else {
		info.Class("scanner-rejects")
	}
	info.NonTrivial = inDomain && n >= 3 && hasBody
	if len(src) > 300 {
		info.Sample = src[:300] + "..."
	}
	return f
}

func TestC14(t *testing.T) {
	h := vlib.New(t, "C14", "exploration",
		"inputs to the scanner alone: token sequences enumerated after canonical prefixes, rapid token soups, mutated fixtures, the fixtures themselves; plus, through the whole pipeline, every token and token pair after the file name of an INCLUDE (accepted with an unchanged catalog only if the text is blank or comment); the oracle applies to inputs scanned to EOF without error; non-trivial = >= 3 lexemes including a body or annotation; distinct by input hash",
		"the schema library's Len() is the reference for where a schema / enum value ends", "the gap recogniser is written from the language description (README), not from the step functions")
	h.Require("scanned-to-eof", "scanner-rejects", "include-line-tail", "include-line-tail-refused")
	defer vlib.CleanupScratch()
	// failing inputs of the native fuzz arm (thorough tier, driver-run) replay through this campaign
	vlib.Enum(h, "native-fuzz", false, func(func(string) bool) {}, c14Check)

	vlib.Enum(h, "fixtures", false, func(yield func(string) bool) {
		for i, c := range vlib.Corpus() {
			if h.Mine(i) && !yield(c.Content) {
				return
			}
		}
	}, c14Check)
	vlib.Enum(h, "hostile-constants", false, func(yield func(string) bool) {
		for i, s := range vlib.HostileConstants {
			if h.Mine(i) && !yield(s) {
				return
			}
		}
	}, c14Check)
	for _, joiner := range []string{" ", ""} {
		vlib.Enum(h, "tokenseq-exhaustive-join"+map[string]string{" ": "space", "": "none"}[joiner], true, func(yield func(string) bool) {
			eachTokenSeqJoin(vlib.Prefixes, vlib.Sigma, 2, joiner, h.Mine, yield)
		}, c14Check)
		vlib.Enum(h, "tokenseq-small-alphabet-join"+map[string]string{" ": "space", "": "none"}[joiner], true, func(yield func(string) bool) {
			eachTokenSeqJoin(vlib.Prefixes, vlib.SigmaSmall, h.Pick(2, 3), joiner, h.Mine, yield)
		}, c14Check)
	}
	// through the whole pipeline: what follows the file name on an INCLUDE line
	// is read by the including file's scanner after the included file is done;
	// content there must have an effect or be refused
	type incTail struct {
		Sep  string `json:"sep"`
		Tail string `json:"tail"`
	}
	vlib.Enum(h, "content-after-include-name", true, func(yield func(incTail) bool) {
		i := 0
		emit := func(c incTail) bool {
			i++
			return !h.Mine(i) || yield(c)
		}
		for _, sep := range []string{" ", "\t", "  "} {
			for _, a := range vlib.Sigma {
				if !emit(incTail{sep, a}) {
					return
				}
				for _, b := range vlib.SigmaSmall {
					if !emit(incTail{sep, a + " " + b}) {
						return
					}
				}
			}
		}
	}, func(c incTail, info *vlib.Info) *vlib.Failure {
		mk := func(tail string) vlib.Project {
			return vlib.Project{Root: "root.jst", Files: map[string]string{
				"root.jst": "JSIGHT 0.3\nINCLUDE inc.jst" + tail + "\nTYPE @after\n{}\n",
				"inc.jst":  "TYPE @t\n{}\n"}}
		}
		trivia := vlib.TriviaOnly(c.Sep + c.Tail)
		info.Class("include-line-tail")
		info.NonTrivial = !trivia
		res := vlib.Run(mk(c.Sep + c.Tail))
		if res.Panic != "" || !res.Accepted {
			info.Class("include-line-tail-refused")
			return nil
		}
		base := vlib.Run(mk(""))
		if !trivia && base.Accepted && res.JSON == base.JSON {
			return vlib.Failf("dropped-content", "the text %q after the file name of an INCLUDE is neither blank nor comment, yet the project is accepted and its catalog is the same as without it", c.Sep+c.Tail)
		}
		return nil
	})
	vlib.Rapid(h, "token-soup", h.N(40000, 2000000), func(t *rapid.T) string {
		pre := rapid.SampledFrom(vlib.Prefixes).Draw(t, "prefix")
		return pre + vlib.GenTokenSoup(t, 14)
	}, c14Check)
	vlib.Rapid(h, "fixture-mutation", h.N(40000, 2000000), vlib.GenMutation, c14Check)
}
