package props

import (
	"strings"
	"testing"

	"github.com/jsightapi/jsight-api-go-library/catalog"

	"verif/vlib"
)

// c19FirstSegment is the reference notion of "first segment of a path": the
// first segment that is neither empty nor "." ("" when there is none).
func c19FirstSegment(path string) string {
	for _, s := range strings.Split(path, "/") {
		if s != "" && s != "." {
			return s
		}
	}
	return ""
}

func c19AutoName(path string) string {
	return catalog.VerifTagName(catalog.VerifPathTagTitle(path))
}

func TestC19(t *testing.T) {
	h := vlib.New(t, "C19", "exploration",
		"first path segments over {a, _, %, ., space, 2, 5, F, e-acute, ~, -, @} exhaustively to the tier's length through the tag-name function (injectivity by a name -> segment map over the whole enumeration) and end to end to length 3; generated documents mixing method-level, URL-level and absent Tags for HTTP and JSON-RPC interactions against a reference tag assignment; non-trivial = segment holds a character that is escaped, or document has >= 3 interactions with >= 2 tag sources; distinct by segment / document hash",
		"'first segment' is the first segment that is neither empty nor '.' (the library skips those on purpose)")
	segAlpha := []string{"a", "_", "%", ".", " ", "2", "5", "F", "é", "~", "-", "@"}

	// injectivity: one map over the whole enumeration, kept per shard; since a
	// collision needs both segments in one map, every shard enumerates all
	// segments (the function costs < 1 us) and only counts its own.
	seen := map[string]string{}
	idx := 0
	vlib.Enum(h, "auto-tag-injective-exhaustive", true, func(yield func(string) bool) {
		if h.Shard != 0 {
			return // one map must see every segment: a single shard enumerates them all
		}
		eachString(segAlpha, h.Pick(5, 6), func(int) bool { return true }, yield)
	}, func(seg string, info *vlib.Info) *vlib.Failure {
		idx++
		first := c19FirstSegment("/" + seg)
		name := c19AutoName("/" + seg)
		info.NonTrivial = strings.ContainsAny(seg, "_% é~@")
		info.Class("segment")
		if prev, ok := seen[name]; ok && prev != first {
			return vlib.Failf("auto-tag-collision", "first segments %q and %q both get the tag name %q", prev, first, name)
		}
		seen[name] = first
		// same first segment, longer path: same tag
		if first != "" {
			for _, tail := range []string{"/x", "/{id}/y", "/"} {
				if n2 := c19AutoName("/" + seg + tail); n2 != name {
					return vlib.Failf("auto-tag-not-shared", "paths %q and %q have the same first segment but tags %q and %q", "/"+seg, "/"+seg+tail, name, n2)
				}
			}
		}
		// any number of empty or "." segments before it: same first segment, same tag
		if first != "" {
			for _, pre := range []string{"/.", "/", "/./.", "/./", "//", "/././.", "///", "/.//.", "/./././.", "/////"} {
				p2 := pre + "/" + seg
				if c19FirstSegment(p2) != first {
					continue
				}
				info.Class("skipped-leading-segments")
				if n2 := c19AutoName(p2); n2 != name {
					return vlib.Failf("auto-tag-not-shared", "paths %q and %q have the same first segment but tags %q and %q", "/"+seg, p2, name, n2)
				}
			}
		}
		if !strings.HasPrefix(name, "@") {
			return vlib.Failf("auto-tag-name-shape", "automatic tag name %q for segment %q does not start with '@'", name, seg)
		}
		return nil
	})

	// end to end: the tag an interaction carries is the function's value, and its title is "/segment"
	vlib.Enum(h, "auto-tag-end-to-end", true, func(yield func(string) bool) {
		eachString(segAlpha, 3, h.Mine, yield)
	}, func(seg string, info *vlib.Info) *vlib.Failure {
		if seg == "" || strings.HasPrefix(seg, " ") || strings.HasSuffix(seg, " ") {
			return nil
		}
		path := "/" + seg
		first := c19FirstSegment(path)
		info.NonTrivial = strings.ContainsAny(seg, "_% é~@")
		info.Class("segment-e2e")
		src := "JSIGHT 0.3\nGET " + c17Quote(path) + "\n  200 any\nPOST " + c17Quote(path+"/sub") + "\n  200 any\n"
		res := vlib.Run(vlib.Single(src))
		if res.Panic != "" {
			return vlib.Failf("panic", "%q panics: %s", src, res.Panic)
		}
		if !res.Accepted {
			return nil // path rules (C13/C17) may refuse the path; not this property
		}
		cat, err := vlib.ParseCatalog(res.JSON)
		if err != nil {
			return vlib.Failf("bad-json", "%v", err)
		}
		want := c19AutoName(path)
		for _, p := range []string{path, path + "/sub"} {
			id := "http GET " + p
			if p != path {
				id = "http POST " + p
			}
			w := c19AutoName(p)
			if c19FirstSegment(p) == first && w != want {
				return vlib.Failf("auto-tag-not-shared", "%q and %q share the first segment but not the tag", path, p)
			}
			tags, _ := cat.Get("interactions", id, "tags").([]any)
			if len(tags) != 1 || tags[0] != w {
				return vlib.Failf("auto-tag-assignment", "%q: interaction %q has tags %v, expected exactly [%q]", src, id, tags, w)
			}
		}
		title, _ := cat.Str("tags", want, "title")
		wantTitle := "/" + first
		if first == "" {
			wantTitle = "/"
		}
		if title != wantTitle {
			return vlib.Failf("auto-tag-title", "%q: automatic tag %q has title %q, expected %q", src, want, title, wantTitle)
		}
		return nil
	})

	runRegression(h, c19Regression)
	c19Docs(h)
}
