package props

import (
	"encoding/json"
	"fmt"
	"runtime"
	"strconv"
	"strings"
	"sync"
	"testing"

	"pgregory.net/rapid"

	"github.com/jsightapi/jsight-api-go-library/catalog"
	"github.com/jsightapi/jsight-api-go-library/directive"
	"github.com/jsightapi/jsight-api-go-library/kit"
	"github.com/jsightapi/jsight-schema-go-library/fs"

	"verif/vlib"
)

type c16Workload struct {
	G        int            `json:"goroutines"`
	Projects []vlib.Project `json:"projects"`
	// ColdCodes: projects use response codes no earlier project of the process used
	// and the solo results are computed after the concurrent run.
	Cold bool `json:"cold"`
	// Shared: the caller shares what a server would share between requests - one
	// ban option value (K1) given to every project, a second ban option (K2) given
	// to every third project, and one byte slice per distinct source text.
	Shared bool     `json:"shared,omitempty"`
	K1     []string `json:"k1,omitempty"`
	K2     []string `json:"k2,omitempty"`
}

var c16CodeCounter = 205

func genWorkload(t *rapid.T) c16Workload {
	w := c16Workload{G: rapid.SampledFrom([]int{2, 4, 8, 16}).Draw(t, "G"), Cold: rapid.IntRange(0, 2).Draw(t, "cold") == 0}
	n := w.G * rapid.IntRange(1, 3).Draw(t, "perG")
	cc := vlib.Corpus()
	for i := 0; i < n; i++ {
		switch rapid.IntRange(0, 4).Draw(t, "src") {
		case 4:
			// two projects with byte-identical schema bodies that mean different
			// things (an enum's values, a type's body differ)
			sib := genSiblings(t)
			w.Projects = append(w.Projects, sib[0])
			if i+1 < n {
				w.Projects = append(w.Projects, sib[1])
				i++
			}
		case 0:
			w.Projects = append(w.Projects, vlib.Single(cc[rapid.IntRange(0, len(cc)-1).Draw(t, "fixture")].Content))
		case 1:
			w.Projects = append(w.Projects, genMultiFault(t))
		default:
			doc := vlib.GenDoc(t, vlib.GenOpts{Macros: true, Inheritance: rapid.Bool().Draw(t, "inh")})
			src := vlib.Render(doc, vlib.Style{}).Text
			if w.Cold {
				// response codes never seen by this process (1xx..5xx, three digits)
				for _, old := range []string{"200", "201", "204", "404"} {
					c16CodeCounter++
					if c16CodeCounter > 599 {
						c16CodeCounter = 205
					}
					src = strings.ReplaceAll(src, "\n"+strings.Repeat(" ", 4)+old+" ", "\n"+strings.Repeat(" ", 4)+strconv.Itoa(c16CodeCounter)+" ")
				}
			}
			w.Projects = append(w.Projects, vlib.Single(src))
		}
	}
	if !w.Cold && rapid.IntRange(0, 2).Draw(t, "shared") == 0 {
		w.Shared = true
		kinds := vlib.KindNames()
		w.K1 = rapid.SliceOfNDistinct(rapid.SampledFrom(kinds), 1, 2, rapid.ID[string]).Draw(t, "k1")
		w.K2 = rapid.SliceOfNDistinct(rapid.SampledFrom(kinds), 1, 3, rapid.ID[string]).Draw(t, "k2")
		// the same text several times (one shared byte slice), with escapes in quoted parameters
		for i := 0; i < n; i++ {
			if rapid.IntRange(0, 1).Draw(t, "dup") == 0 {
				w.Projects[i] = w.Projects[rapid.IntRange(0, n-1).Draw(t, "dupOf")]
			}
		}
		w.Projects[0] = vlib.Single("JSIGHT 0.3\nINFO\n  Title \"The \\\"Cat\\\" API \\\\ v2\"\nGET /cats\n  200 any\n")
		w.Projects[n-1] = w.Projects[0]
	}
	return w
}

func c16Run(w c16Workload, info *vlib.Info) *vlib.Failure {
	info.NonTrivial = w.G >= 2 && len(w.Projects) >= 2
	info.Class(fmt.Sprintf("goroutines:%d", w.G))
	if w.Cold {
		info.Class("cold-start")
	}
	info.Sample = map[string]any{"goroutines": w.G, "projects": len(w.Projects), "first": trunc(w.Projects[0].Files["root.jst"], 400)}
	run := func(i int) string { return resultKey(vlib.Run(w.Projects[i])) }
	runSolo := run
	var bufs map[string][]byte
	if w.Shared {
		info.Class("shared-option-and-bytes")
		sharedOpt := vlib.BanOption(w.K1...)
		bufs = map[string][]byte{}
		usable := func(i int) bool {
			p := w.Projects[i]
			return len(p.Files) == 1 && !strings.Contains(p.Files[p.Root], "INCLUDE")
		}
		for i, p := range w.Projects {
			if usable(i) {
				bufs[p.Files[p.Root]] = []byte(p.Files[p.Root])
			}
		}
		run = func(i int) string {
			if !usable(i) {
				return resultKey(vlib.Run(w.Projects[i]))
			}
			src := w.Projects[i].Files[w.Projects[i].Root]
			f := vlib.SharedFile("root.jst", bufs[src])
			if i%3 == 0 {
				r, _, _ := vlib.RunShared(f, vlib.FixedSeedOption(), sharedOpt, vlib.BanOption(w.K2...))
				return resultKey(r)
			}
			r, _, _ := vlib.RunShared(f, vlib.FixedSeedOption(), sharedOpt)
			return resultKey(r)
		}
		runSolo = func(i int) string {
			if !usable(i) {
				return resultKey(vlib.Run(w.Projects[i]))
			}
			src := w.Projects[i].Files[w.Projects[i].Root]
			if i%3 == 0 {
				return resultKey(vlib.RunWithOptions(src, vlib.FixedSeedOption(), vlib.BanOption(w.K1...), vlib.BanOption(w.K2...)))
			}
			return resultKey(vlib.RunWithOptions(src, vlib.FixedSeedOption(), vlib.BanOption(w.K1...)))
		}
	}
	solo := make([]string, len(w.Projects))
	if !w.Cold {
		for i := range w.Projects {
			solo[i] = runSolo(i)
		}
	}
	conc := make([]string, len(w.Projects))
	var wg sync.WaitGroup
	start := make(chan struct{})
	for g := 0; g < w.G; g++ {
		wg.Add(1)
		go func(g int) {
			defer wg.Done()
			<-start
			for i := g; i < len(w.Projects); i += w.G {
				conc[i] = run(i)
				runtime.Gosched()
			}
		}(g)
	}
	close(start)
	wg.Wait()
	if w.Cold {
		for i := range w.Projects {
			solo[i] = runSolo(i)
		}
	}
	for src, b := range bufs {
		if string(b) != src {
			return vlib.Failf("caller-bytes-modified", "a source text shared by the projects of the workload was modified\n--- given:\n%s\n--- afterwards:\n%s", trunc(src, 600), trunc(string(b), 600))
		}
	}
	for i := range w.Projects {
		if conc[i] != solo[i] {
			key := "concurrent-result-differs"
			if strings.HasPrefix(conc[i], "PANIC") {
				key = "concurrent-panic"
			} else if strings.HasPrefix(conc[i], "OK ") && strings.HasPrefix(solo[i], "OK ") {
				ja, jb := strings.SplitN(conc[i][3:], "\n", 2)[0], strings.SplitN(solo[i][3:], "\n", 2)[0]
				if vlib.MaskExamples(ja) == vlib.MaskExamples(jb) {
					key = "concurrent-example-differs"
					if strings.Contains(w.Projects[i].Files["root.jst"], "regex") {
						key = vlib.KeyRegexExample
					}
				}
			}
			return vlib.Failf(key, "project %d of the workload (%d goroutines): the result obtained concurrently differs from the result obtained alone\n--- concurrently:\n%s\n--- alone:\n%s\n--- source:\n%s", i, w.G, trunc(conc[i], 500), trunc(solo[i], 500), trunc(w.Projects[i].Files["root.jst"], 1500))
		}
	}
	return nil
}

// c16Readers: one validated catalog serialised and read from many goroutines.
// The goroutines start on a catalog that has never been serialised (the first
// serialisation is concurrent too); the expected bytes come from a second
// JApi of the same text, serialised alone.
func c16Readers(src string, info *vlib.Info) *vlib.Failure {
	ref := kit.NewJApiFromFile(fs.NewFile("root.jst", []byte(src)))
	if je := ref.ValidateJAPI(); je != nil {
		return nil
	}
	want, _ := ref.ToJson()
	wantI, _ := ref.ToJsonIndent()
	title := ref.Title()
	j := kit.NewJApiFromFile(fs.NewFile("root.jst", []byte(src)))
	if je := j.ValidateJAPI(); je != nil {
		return vlib.Failf("concurrent-read-differs", "the same text is accepted once and rejected once\n--- source:\n%s", trunc(src, 1500))
	}
	info.NonTrivial = true
	info.Class("concurrent-readers")
	var wg sync.WaitGroup
	errs := make(chan string, 64)
	start := make(chan struct{})
	for g := 0; g < 8; g++ {
		wg.Add(1)
		go func(g int) {
			defer wg.Done()
			<-start
			for k := 0; k < 4; k++ {
				switch (g + k) % 3 {
				case 0:
					if b, err := j.ToJson(); err != nil || string(b) != string(want) {
						errs <- "ToJson differs under concurrent reads"
					}
				case 1:
					if b, err := j.ToJsonIndent(); err != nil || string(b) != string(wantI) {
						errs <- "ToJsonIndent differs under concurrent reads"
					}
				default:
					if j.Title() != title {
						errs <- "Title differs under concurrent reads"
					}
				}
			}
		}(g)
	}
	close(start)
	wg.Wait()
	close(errs)
	for e := range errs {
		if strings.Contains(src, "regex") {
			// examples derived from regex user types differ between two JApi objects (known finding)
			if b, err := j.ToJson(); err == nil && vlib.MaskExamples(string(b)) == vlib.MaskExamples(string(want)) {
				return vlib.Failf(vlib.KeyRegexExample, "results differ only in regex-derived examples")
			}
		}
		return vlib.Failf("concurrent-read-differs", "%s\n--- source:\n%s", e, trunc(src, 1500))
	}
	return nil
}

// ---- collections ----------------------------------------------------------

type collOp struct {
	Op  string `json:"op"` // set settop update get has len each find marshal
	Key int    `json:"key"`
	Yld bool   `json:"yield,omitempty"`
}

type collCase struct {
	Coll string     `json:"coll"`
	Ops  [][]collOp `json:"ops"` // per goroutine
}

// collAdapter drives one collection type through closures.
type collAdapter struct {
	set, setTop func(k string, n int)
	update      func(k string)
	get         func(k string) (int, bool)
	has         func(k string) bool
	length      func() int
	each        func(func(k string))
	marshal     func() ([]byte, error)
	// mapInc: one Map pass that increments every value (a writer of every key)
	mapInc func()
	// scan: the remaining readers (EachReverse, EachSafe, Find, GetValue)
	scan func(k string)
}

func atoi(s string) int { n, _ := strconv.Atoi(s); return n }

func newColl(name string) collAdapter {
	switch name {
	case "Servers":
		m := &catalog.Servers{}
		return collAdapter{
			set:    func(k string, n int) { m.Set(k, &catalog.Server{BaseUrl: strconv.Itoa(n)}) },
			setTop: func(k string, n int) { m.SetToTop(k, &catalog.Server{BaseUrl: strconv.Itoa(n)}) },
			update: func(k string) {
				m.Update(k, func(v *catalog.Server) *catalog.Server {
					return &catalog.Server{BaseUrl: strconv.Itoa(atoi(v.BaseUrl) + 1)}
				})
			},
			get: func(k string) (int, bool) {
				v, ok := m.Get(k)
				if !ok {
					return 0, false
				}
				return atoi(v.BaseUrl), true
			},
			has: m.Has, length: m.Len,
			each:    func(f func(string)) { _ = m.Each(func(k string, _ *catalog.Server) error { f(k); return nil }) },
			marshal: m.MarshalJSON,
			mapInc: func() {
				_ = m.Map(func(_ string, v *catalog.Server) (*catalog.Server, error) {
					return &catalog.Server{BaseUrl: strconv.Itoa(atoi(v.BaseUrl) + 1)}, nil
				})
			},
			scan: func(k string) {
				_ = m.EachReverse(func(string, *catalog.Server) error { return nil })
				m.EachSafe(func(string, *catalog.Server) {})
				m.Find(func(kk string, _ *catalog.Server) bool { return kk == k })
				m.GetValue(k)
			},
		}
	case "Tags":
		m := &catalog.Tags{}
		mk := func(n int) *catalog.Tag { return catalog.NewTag("@x", strconv.Itoa(n)) }
		return collAdapter{
			set:    func(k string, n int) { m.Set(catalog.TagName(k), mk(n)) },
			setTop: func(k string, n int) { m.SetToTop(catalog.TagName(k), mk(n)) },
			update: func(k string) {
				m.Update(catalog.TagName(k), func(v *catalog.Tag) *catalog.Tag { return mk(atoi(v.Title) + 1) })
			},
			get: func(k string) (int, bool) {
				v, ok := m.Get(catalog.TagName(k))
				if !ok {
					return 0, false
				}
				return atoi(v.Title), true
			},
			has:     func(k string) bool { return m.Has(catalog.TagName(k)) },
			length:  m.Len,
			each:    func(f func(string)) { _ = m.Each(func(k catalog.TagName, _ *catalog.Tag) error { f(string(k)); return nil }) },
			marshal: m.MarshalJSON,
			mapInc: func() {
				_ = m.Map(func(_ catalog.TagName, v *catalog.Tag) (*catalog.Tag, error) { return mk(atoi(v.Title) + 1), nil })
			},
			scan: func(k string) {
				_ = m.EachReverse(func(catalog.TagName, *catalog.Tag) error { return nil })
				m.EachSafe(func(catalog.TagName, *catalog.Tag) {})
				m.Find(func(kk catalog.TagName, _ *catalog.Tag) bool { return string(kk) == k })
				m.GetValue(catalog.TagName(k))
			},
		}
	case "UserTypes":
		m := &catalog.UserTypes{}
		mk := func(n int) *catalog.UserType {
			return &catalog.UserType{Annotation: strconv.Itoa(n), Schema: catalog.NewSchema("any")}
		}
		return collAdapter{
			set:    func(k string, n int) { m.Set(k, mk(n)) },
			setTop: func(k string, n int) { m.SetToTop(k, mk(n)) },
			update: func(k string) {
				m.Update(k, func(v *catalog.UserType) *catalog.UserType { return mk(atoi(v.Annotation) + 1) })
			},
			get: func(k string) (int, bool) {
				v, ok := m.Get(k)
				if !ok {
					return 0, false
				}
				return atoi(v.Annotation), true
			},
			has: m.Has, length: m.Len,
			each:    func(f func(string)) { _ = m.Each(func(k string, _ *catalog.UserType) error { f(k); return nil }) },
			marshal: m.MarshalJSON,
			mapInc: func() {
				_ = m.Map(func(_ string, v *catalog.UserType) (*catalog.UserType, error) { return mk(atoi(v.Annotation) + 1), nil })
			},
			scan: func(k string) {
				_ = m.EachReverse(func(string, *catalog.UserType) error { return nil })
				m.EachSafe(func(string, *catalog.UserType) {})
				m.Find(func(kk string, _ *catalog.UserType) bool { return kk == k })
				m.GetValue(k)
			},
		}
	case "UserRules":
		m := &catalog.UserRules{}
		mk := func(n int) *catalog.UserRule { return &catalog.UserRule{Annotation: strconv.Itoa(n)} }
		return collAdapter{
			set:    func(k string, n int) { m.Set(k, mk(n)) },
			setTop: func(k string, n int) { m.SetToTop(k, mk(n)) },
			update: func(k string) {
				m.Update(k, func(v *catalog.UserRule) *catalog.UserRule { return mk(atoi(v.Annotation) + 1) })
			},
			get: func(k string) (int, bool) {
				v, ok := m.Get(k)
				if !ok {
					return 0, false
				}
				return atoi(v.Annotation), true
			},
			has: m.Has, length: m.Len,
			each:    func(f func(string)) { _ = m.Each(func(k string, _ *catalog.UserRule) error { f(k); return nil }) },
			marshal: m.MarshalJSON,
			mapInc: func() {
				_ = m.Map(func(_ string, v *catalog.UserRule) (*catalog.UserRule, error) { return mk(atoi(v.Annotation) + 1), nil })
			},
			scan: func(k string) {
				_ = m.EachReverse(func(string, *catalog.UserRule) error { return nil })
				m.EachSafe(func(string, *catalog.UserRule) {})
				m.Find(func(kk string, _ *catalog.UserRule) bool { return kk == k })
				m.GetValue(k)
			},
		}
	case "Directives":
		m := &directive.Directives{}
		mk := func(n int) *directive.Directive {
			d := directive.New(directive.Get, directive.Coords{})
			d.Annotation = strconv.Itoa(n)
			return d
		}
		return collAdapter{
			set:    func(k string, n int) { m.Set(k, mk(n)) },
			setTop: func(k string, n int) { m.SetToTop(k, mk(n)) },
			update: func(k string) {
				m.Update(k, func(v *directive.Directive) *directive.Directive { return mk(atoi(v.Annotation) + 1) })
			},
			get: func(k string) (int, bool) {
				v, ok := m.Get(k)
				if !ok {
					return 0, false
				}
				return atoi(v.Annotation), true
			},
			has: m.Has, length: m.Len,
			each:    func(f func(string)) { _ = m.Each(func(k string, _ *directive.Directive) error { f(k); return nil }) },
			marshal: func() ([]byte, error) { return []byte("{}"), nil },
			mapInc: func() {
				_ = m.Map(func(_ string, v *directive.Directive) (*directive.Directive, error) { return mk(atoi(v.Annotation) + 1), nil })
			},
			scan: func(k string) {
				_ = m.EachReverse(func(string, *directive.Directive) error { return nil })
				m.EachSafe(func(string, *directive.Directive) {})
				m.Find(func(kk string, _ *directive.Directive) bool { return kk == k })
				m.GetValue(k)
			},
		}
	default: // Interactions
		m := &catalog.Interactions{}
		id := func(k string) catalog.InteractionID { return catalog.VerifHTTPInteractionID("/" + k) }
		mk := func(k string, n int) catalog.Interaction {
			return catalog.VerifHTTPInteraction("/"+k, strconv.Itoa(n))
		}
		ann := func(v catalog.Interaction) int {
			if h, ok := v.(*catalog.HTTPInteraction); ok && h.Annotation != nil {
				return atoi(*h.Annotation)
			}
			return 0
		}
		return collAdapter{
			set:    func(k string, n int) { m.Set(id(k), mk(k, n)) },
			setTop: func(k string, n int) { m.SetToTop(id(k), mk(k, n)) },
			update: func(k string) {
				m.Update(id(k), func(v catalog.Interaction) catalog.Interaction { return mk(k, ann(v)+1) })
			},
			get: func(k string) (int, bool) {
				v, ok := m.Get(id(k))
				if !ok {
					return 0, false
				}
				return ann(v), true
			},
			has:    func(k string) bool { return m.Has(id(k)) },
			length: m.Len,
			each: func(f func(string)) {
				_ = m.Each(func(k catalog.InteractionID, _ catalog.Interaction) error {
					f(strings.TrimPrefix(k.Path().String(), "/"))
					return nil
				})
			},
			marshal: m.MarshalJSON,
			mapInc: func() {
				_ = m.Map(func(kk catalog.InteractionID, v catalog.Interaction) (catalog.Interaction, error) {
					return mk(strings.TrimPrefix(kk.Path().String(), "/"), ann(v)+1), nil
				})
			},
			scan: func(k string) {
				_ = m.EachReverse(func(catalog.InteractionID, catalog.Interaction) error { return nil })
				m.EachSafe(func(catalog.InteractionID, catalog.Interaction) {})
				m.Find(func(kk catalog.InteractionID, _ catalog.Interaction) bool { return kk.Path().String() == "/"+k })
				m.GetValue(id(k))
			},
		}
	}
}

var collNames = []string{"Interactions", "Servers", "Tags", "UserTypes", "UserRules", "Directives"}

func genCollCase(t *rapid.T) collCase {
	c := collCase{Coll: rapid.SampledFrom(collNames).Draw(t, "coll")}
	g := rapid.IntRange(2, 6).Draw(t, "goroutines")
	ops := []string{"set", "set", "settop", "update", "update", "get", "has", "len", "each", "marshal", "map", "map", "scan"}
	for i := 0; i < g; i++ {
		n := rapid.IntRange(3, 25).Draw(t, "nops")
		var list []collOp
		for j := 0; j < n; j++ {
			list = append(list, collOp{Op: rapid.SampledFrom(ops).Draw(t, "op"), Key: rapid.IntRange(0, 4).Draw(t, "key"), Yld: rapid.IntRange(0, 3).Draw(t, "yield") == 0})
		}
		c.Ops = append(c.Ops, list)
	}
	return c
}

func collCheck(c collCase, info *vlib.Info) *vlib.Failure {
	a := newColl(c.Coll)
	info.Class("collection:" + c.Coll)
	// which keys are written by >= 2 goroutines
	writers := map[int]map[int]bool{}
	for g, list := range c.Ops {
		for _, op := range list {
			if op.Op == "set" || op.Op == "settop" || op.Op == "update" {
				if writers[op.Key] == nil {
					writers[op.Key] = map[int]bool{}
				}
				writers[op.Key][g] = true
			}
			if op.Op == "map" {
				info.Class("map-pass")
				for k := 0; k < 5; k++ {
					if writers[k] == nil {
						writers[k] = map[int]bool{}
					}
					writers[k][g] = true
				}
			}
		}
	}
	for _, ws := range writers {
		if len(ws) >= 2 {
			info.NonTrivial = true
		}
	}
	// lost-update check: keys that are only ever updated after an initial set by
	// the harness keep an exact counter
	counted := map[int]bool{}
	for k := 0; k < 5; k++ {
		onlyUpdates := true
		for _, list := range c.Ops {
			for _, op := range list {
				if op.Key == k && (op.Op == "set" || op.Op == "settop") {
					onlyUpdates = false
				}
			}
		}
		if onlyUpdates {
			counted[k] = true
			a.set("k"+strconv.Itoa(k), 0)
		}
	}
	var wg sync.WaitGroup
	start := make(chan struct{})
	var marshalErr error
	var mu sync.Mutex
	for _, list := range c.Ops {
		wg.Add(1)
		go func(list []collOp) {
			defer wg.Done()
			<-start
			for _, op := range list {
				k := "k" + strconv.Itoa(op.Key)
				switch op.Op {
				case "set":
					a.set(k, 1000)
				case "settop":
					a.setTop(k, 1000)
				case "update":
					a.update(k)
				case "get":
					a.get(k)
				case "has":
					a.has(k)
				case "len":
					a.length()
				case "each":
					a.each(func(string) {})
				case "map":
					a.mapInc()
				case "scan":
					a.scan(k)
				case "marshal":
					b, err := a.marshal()
					if err == nil && !json.Valid(b) {
						err = fmt.Errorf("MarshalJSON output is not valid JSON: %s", trunc(string(b), 200))
					}
					if err == nil {
						if _, derr := vlib.DecodeOrdered(b); derr != nil {
							err = fmt.Errorf("MarshalJSON output: %v", derr)
						}
					}
					if err != nil {
						mu.Lock()
						marshalErr = err
						mu.Unlock()
					}
				}
				if op.Yld {
					runtime.Gosched()
				}
			}
		}(list)
	}
	close(start)
	wg.Wait()
	if marshalErr != nil {
		return vlib.Failf("collection-marshal", "%s: %v", c.Coll, marshalErr)
	}
	// invariants
	seen := map[string]int{}
	a.each(func(k string) { seen[k]++ })
	total := 0
	for k, n := range seen {
		total += n
		if n != 1 {
			return vlib.Failf("collection-key-twice", "%s: key %q appears %d times in the order", c.Coll, k, n)
		}
	}
	if a.length() != total {
		return vlib.Failf("collection-len", "%s: Len() = %d but Each walks %d keys", c.Coll, a.length(), total)
	}
	for k := range writers {
		key := "k" + strconv.Itoa(k)
		setByOps := false
		for _, list := range c.Ops {
			for _, op := range list {
				if op.Key == k && (op.Op == "set" || op.Op == "settop") {
					setByOps = true
				}
			}
		}
		if (setByOps || counted[k]) && seen[key] != 1 {
			return vlib.Failf("collection-key-lost", "%s: key %q was set but is not in the collection", c.Coll, key)
		}
	}
	for k := range counted {
		want := 0
		for _, list := range c.Ops {
			for _, op := range list {
				if op.Op == "map" || (op.Key == k && op.Op == "update") {
					want++ // a Map pass increments every value; counted keys are present from the start
				}
			}
		}
		got, ok := a.get("k" + strconv.Itoa(k))
		if !ok || got != want {
			return vlib.Failf("collection-lost-update", "%s: key k%d was updated %d times but its counter is %d (present %v)", c.Coll, k, want, got, ok)
		}
	}
	return nil
}

func TestC16(t *testing.T) {
	h := vlib.New(t, "C16", "exploration",
		"built with -race: workloads of 2-16 goroutines each creating, validating and serialising a generated list of projects (fixtures, generated valid and multi-fault documents; one third 'cold': response codes the process has not seen, solo results computed afterwards; two ninths 'sharing': one ban option value given to every project plus a second ban option for every third project, and one byte slice per distinct source text, repeated texts, escapes in quoted parameters), one validated catalog read from 8 goroutines, and rapid-generated per-goroutine operation lists (Set / SetToTop / Update / Map / Get / GetValue / Has / Len / Each / EachReverse / EachSafe / Find / MarshalJSON with yield points, 5 keys) on each locked collection type; oracle: no race report (driver reads the race detector's log), every concurrent result equals the solo result, collection invariants (every key once, Len = walked keys, no lost update, valid JSON); non-trivial = >= 2 goroutines overlapped and, for collections, a key written by >= 2 goroutines; distinct by workload",
		"interleavings are sampled by the Go scheduler; the race detector sees only executed accesses", "UserSchemas is generated without a lock on purpose and is not part of the property")
	defer vlib.CleanupScratch()
	req := []string{"cold-start", "concurrent-readers", "goroutines:2", "goroutines:16", "shared-option-and-bytes", "map-pass"}
	for _, n := range collNames {
		req = append(req, "collection:"+n)
	}
	h.Require(req...)
	vlib.Rapid(h, "concurrent-workloads", h.N(120, 6000), genWorkload, c16Run)
	vlib.Rapid(h, "concurrent-readers", h.N(200, 6000), func(t *rapid.T) string {
		doc := vlib.GenDoc(t, vlib.GenOpts{Macros: true})
		return vlib.Render(doc, vlib.Style{}).Text
	}, c16Readers)
	vlib.Rapid(h, "collection-histories", h.N(4000, 200000), genCollCase, collCheck)
}
