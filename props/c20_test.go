package props

import (
	"strings"
	"testing"

	"pgregory.net/rapid"

	"verif/vlib"
)

type c20Case struct {
	Doc  *vlib.Doc   `json:"doc"`
	Kind string      `json:"kind"` // fresh declaration kind, or "DELETE"
	Unit []*vlib.Dir `json:"unit,omitempty"`
	Pos  int         `json:"pos"`
}

// removeEntry deletes key from the named collection of a catalog (in place).
func removeEntry(cat *vlib.OMap, coll, key string) bool {
	o := cat.Obj(coll)
	if o == nil || !o.Has(key) {
		return false
	}
	delete(o.Vals, key)
	var ks []string
	for _, k := range o.Keys {
		if k != key {
			ks = append(ks, k)
		}
	}
	o.Keys = ks
	if len(ks) == 0 && coll != "tags" && coll != "interactions" {
		delete(cat.Vals, coll)
		var tk []string
		for _, k := range cat.Keys {
			if k != coll {
				tk = append(tk, k)
			}
		}
		cat.Keys = tk
	}
	return true
}

// expectedNew: which entries a fresh unit adds: collection -> keys.
func expectedNew(kind string) map[string][]string {
	switch kind {
	case "TYPE":
		return map[string][]string{"userTypes": {"@freshType"}}
	case "ENUM":
		return map[string][]string{"userEnums": {"@freshEnum"}}
	case "SERVER":
		return map[string][]string{"servers": {"@freshServer"}}
	case "TAG":
		return map[string][]string{"tags": {"@freshTag"}}
	case "MACRO", "MACRO2":
		return map[string][]string{}
	case "URLPATH":
		return map[string][]string{"interactions": {"http GET /freshurl2/{fid}"}, "tags": {"@freshurl2"}}
	case "METHOD":
		return map[string][]string{"interactions": {"http GET /freshpath/{fid}"}, "tags": {"@freshpath"}}
	case "URL":
		return map[string][]string{"interactions": {"http POST /freshurl"}, "tags": {"@freshurl"}}
	}
	return nil
}

// sameButFor compares the catalog "more" with the entries removed against
// "less": "" when equal (order included), else the known key or "differs".
func sameButFor(doc *vlib.Doc, less, more string, extra map[string][]string) (string, string) {
	cm, err := vlib.ParseCatalog(more)
	if err != nil {
		return "differs", "undecodable"
	}
	for coll, keys := range extra {
		for _, k := range keys {
			if !removeEntry(cm, coll, k) {
				return "differs", "the new entry " + coll + "." + k + " is missing"
			}
		}
	}
	cl, err := vlib.ParseCatalog(less)
	if err != nil {
		return "differs", "undecodable"
	}
	if vlib.Canon(cl) == vlib.Canon(cm) {
		return "", ""
	}
	// order of the old entries must be kept
	for _, coll := range catalogCollections {
		a, b := cl.Obj(coll), cm.Obj(coll)
		if (a == nil) != (b == nil) {
			return "differs", "collection " + coll + " appears / disappears"
		}
		if a != nil && strings.Join(a.Keys, "\x00") != strings.Join(b.Keys, "\x00") {
			return "differs", "entries of " + coll + " change: " + strings.Join(a.Keys, ",") + " vs " + strings.Join(b.Keys, ",")
		}
	}
	key, detail := entriesEqual(doc, vlib.Canon(cl), vlib.Canon(cm))
	if key == "" {
		return "differs", diffVal("$", cl, cm)
	}
	return key, detail
}

func c20Check(c c20Case, info *vlib.Info) *vlib.Failure {
	doc := c.Doc
	_, units := doc.Blocks()
	src := vlib.Render(doc, vlib.Style{}).Text
	base := vlib.Run(vlib.Single(src))
	if base.Panic != "" || !base.Accepted {
		info.Class("base-not-accepted")
		return nil
	}
	hasChain := len(transitiveBaseNames(doc)) > 0
	hasRef := false
	doc.Walk(func(d, _ *vlib.Dir) {
		if s := d.Schema; s != nil && (s.Ref != "" || (s.Obj != nil && len(s.Obj.AllOf) > 0)) {
			hasRef = true
		}
	})
	info.Class("kind:" + c.Kind)
	var nd *vlib.Doc
	var extra map[string][]string
	var less, more vlib.Result
	var srcNew string
	if c.Kind == "DELETE" {
		// delete the pos-th unit if nothing refers to it
		if c.Pos >= len(units) {
			return nil
		}
		u := units[c.Pos]
		extra = map[string][]string{}
		refs := referencedNames(doc)
		// a declared tag named like the automatic tag of a path is used by the
		// interactions on that path
		doc.Walk(func(d, _ *vlib.Dir) {
			if (d.Kw == "URL" || vlib.IsVerb(d.Kw)) && len(d.Params) > 0 {
				n, _ := vlib.AutoTagOf(d.Params[0])
				refs[n] = true
			}
		})
		for _, d := range u {
			switch d.Kw {
			case "TYPE", "ENUM", "SERVER", "TAG", "MACRO":
				if len(d.Params) == 0 || refs[d.Params[0]] {
					info.Class("delete-ineligible")
					return nil
				}
				coll := map[string]string{"TYPE": "userTypes", "ENUM": "userEnums", "SERVER": "servers", "TAG": "tags"}[d.Kw]
				if coll != "" {
					extra[coll] = append(extra[coll], d.Params[0])
				}
			default:
				info.Class("delete-ineligible")
				return nil
			}
		}
		nd = &vlib.Doc{}
		header, _ := doc.Blocks()
		nd.Top = append(nd.Top, header...)
		for i, x := range units {
			if i != c.Pos {
				nd.Top = append(nd.Top, x...)
			}
		}
		if nd.ResolveCheck() != "" {
			info.Class("delete-ineligible")
			return nil
		}
		srcNew = vlib.Render(nd, vlib.Style{}).Text
		less = vlib.Run(vlib.Single(srcNew))
		more = base
		info.NonTrivial = len(units) >= 4 && hasRef
	} else {
		nd = doc.WithUnitAt(c.Unit, c.Pos)
		if nd.ResolveCheck() != "" {
			info.Class("insertion-ineligible")
			return nil
		}
		srcNew = vlib.Render(nd, vlib.Style{}).Text
		more = vlib.Run(vlib.Single(srcNew))
		less = base
		extra = expectedNew(c.Kind)
		if c.Kind == "URLPATH" && len(c.Unit) > 0 && len(c.Unit[0].Params) > 0 {
			extra = map[string][]string{"interactions": {"http GET " + c.Unit[0].Params[0]}, "tags": {"@freshurl2"}}
		}
		if c.Kind == "COPY" && more.Accepted {
			// the copied block's interactions all live under the fresh first segment
			extra = map[string][]string{"tags": {"@freshp"}}
			if cm, err := vlib.ParseCatalog(more.JSON); err == nil {
				if in := cm.Obj("interactions"); in != nil {
					for _, k := range in.Keys {
						if strings.Contains(k, " /freshp/") {
							extra["interactions"] = append(extra["interactions"], k)
						}
					}
				}
			}
			if len(extra["interactions"]) == 0 {
				extra = map[string][]string{} // a URL block without methods adds nothing
			}
		}
		info.NonTrivial = len(units) >= 4 && hasRef && c.Pos < len(units)
		if hasChain {
			info.Class("base-has-allOf-chain")
		}
	}
	info.Sample = map[string]any{"kind": c.Kind, "pos": c.Pos, "source": srcNew}
	for _, r := range []vlib.Result{less, more} {
		if r.Panic != "" {
			return vlib.Failf("panic: "+r.Panic, "%s\n%s", r.Panic, srcNew)
		}
	}
	if !less.Accepted || !more.Accepted {
		msg := ""
		for _, r := range []vlib.Result{less, more} {
			if r.Err != nil {
				msg = r.Err.Msg
			}
		}
		return vlib.Failf("locality: verdict", "adding / removing an independent %s declaration changes the verdict: %s\n--- original:\n%s\n--- changed:\n%s", c.Kind, msg, src, srcNew)
	}
	key, detail := sameButFor(doc, less.JSON, more.JSON, extra)
	switch key {
	case "":
		return nil
	case vlib.KeyRegexExample, keyF16:
		return vlib.Failf(key, "other entries differ only in the known way: %s\n--- original:\n%s\n--- changed:\n%s", detail, src, srcNew)
	}
	return vlib.Failf("locality: other-entry-changes", "adding / removing an independent %s declaration changes another entry: %s\n--- original:\n%s\n--- changed:\n%s", c.Kind, detail, src, srcNew)
}

func TestC20(t *testing.T) {
	h := vlib.New(t, "C20", "exploration",
		"accepted generated documents (allOf chains, reference chains, shared path prefixes, tags) x a fresh declaration of each kind (type - optionally inheriting from or referencing existing types -, enum, server, tag, unused macro - plain or pasting an existing macro twice -, method on an unrelated path, URL block - plain, declaring its own path parameter, or a copy of an existing block (with its PASTEs) under a fresh first segment) x every insertion point between the top-level units, and x deletion of each unit nothing refers to; oracle: the larger catalog minus exactly the new entries (and the new automatic tag) is identical, order included, to the smaller one; non-trivial = >= 4 units with a reference or allOf, insertion point not at the end; distinct by (document, kind, position)")
	req := []string{"kind:DELETE", "base-has-allOf-chain"}
	for _, k := range vlib.FreshKinds {
		req = append(req, "kind:"+k)
	}
	h.Require(req...)
	vlib.Rapid(h, "add-fresh-declaration", h.N(20000, 1000000), func(t *rapid.T) c20Case {
		doc := vlib.GenDoc(t, vlib.GenOpts{Macros: rapid.Bool().Draw(t, "macros"), Inheritance: rapid.Bool().Draw(t, "inheritance")})
		_, units := doc.Blocks()
		kind := rapid.SampledFrom(vlib.FreshKinds).Draw(t, "kind")
		return c20Case{Doc: doc, Kind: kind, Unit: vlib.FreshDecl(t, doc, kind), Pos: rapid.IntRange(0, len(units)).Draw(t, "pos")}
	}, c20Check)
	vlib.Rapid(h, "delete-unreferenced", h.N(8000, 300000), func(t *rapid.T) c20Case {
		doc := vlib.GenDoc(t, vlib.GenOpts{Macros: rapid.Bool().Draw(t, "macros"), Inheritance: rapid.Bool().Draw(t, "inheritance")})
		_, units := doc.Blocks()
		return c20Case{Doc: doc, Kind: "DELETE", Pos: rapid.IntRange(0, max(0, len(units)-1)).Draw(t, "pos")}
	}, c20Check)
}
