package props

import (
	"encoding/json"
	"os"
	"path/filepath"
	"strings"
	"testing"

	"verif/vlib"
)

// Native coverage-guided fuzz targets (thorough tier of C01, C02, C09, C14).
// The semantic oracle of the property sits inside the target; failures whose
// key is a listed known finding are skipped so that the campaign goes on.

func fuzzKnown(prop string) map[string]bool {
	out := map[string]bool{}
	b, err := os.ReadFile(filepath.Join(vlib.VerifDir(), "known_findings.json"))
	if err != nil {
		return out
	}
	var kk []struct{ Property, Key, Status string }
	_ = json.Unmarshal(b, &kk)
	for _, k := range kk {
		if k.Property == prop && k.Status == "known" {
			out[k.Key] = true
		}
	}
	return out
}

func fuzzSeeds(f *testing.F) {
	for _, s := range vlib.HostileConstants {
		if len(s) < 4096 {
			f.Add([]byte(s))
		}
	}
	for i, c := range vlib.Corpus() {
		if i%4 == 0 && len(c.Content) < 1500 {
			f.Add([]byte(c.Content))
		}
	}
	for _, p := range vlib.Prefixes {
		f.Add([]byte(p))
	}
}

func fuzzBytes(f *testing.F, prop string, oracle func(src string, info *vlib.Info) *vlib.Failure) {
	fuzzSeeds(f)
	known := fuzzKnown(prop)
	vlib.EnableFaultLog()
	f.Fuzz(func(t *testing.T, data []byte) {
		if len(data) > 6000 || strings.Contains(string(data), "INCLUDE") {
			t.Skip()
		}
		info := &vlib.Info{}
		if fl := oracle(string(data), info); fl != nil && !known[fl.Key] {
			t.Fatalf("FUZZ-VIOLATION key=%q\n%s", fl.Key, fl.Msg)
		}
	})
}

func FuzzC01(f *testing.F) { fuzzBytes(f, "C01", c01Single) }
func FuzzC02(f *testing.F) { fuzzBytes(f, "C02", c02Bytes) }
func FuzzC09(f *testing.F) { fuzzBytes(f, "C09", c09Single) }
func FuzzC14(f *testing.F) { fuzzBytes(f, "C14", c14Check) }
