package props

import (
	"fmt"
	"strings"
	"testing"

	"pgregory.net/rapid"

	"verif/vlib"
)

// c13Positive compares the pathVariables of every interaction with the
// reference binding table (the rest of the catalog is C04's business).
func c13Positive(c docCase, info *vlib.Info) *vlib.Failure {
	r := vlib.Render(c.Doc, c.Style)
	res := vlib.Run(vlib.Single(r.Text))
	if res.Panic != "" {
		return vlib.Failf("panic: "+res.Panic, "%s\n%s", res.Panic, r.Text)
	}
	if !res.Accepted {
		return vlib.Failf("valid-document-rejected", "rejected: %s (line %d)\n--- source:\n%s", res.Err.Msg, res.Err.Line, r.Text)
	}
	ref, err := vlib.RefCatalog(c.Doc)
	if err != nil {
		return vlib.Failf("harness", "%v", err)
	}
	cat, _ := vlib.ParseCatalog(res.JSON)
	refInter, _ := ref.M.Vals["interactions"].(*vlib.OMap)
	shared := map[string]int{}
	deep := false
	nBound := 0
	var errs []string
	for _, id := range refInter.Keys {
		want := refInter.Vals[id].(vlib.Unordered).M.Vals["pathVariables"]
		got := cat.Get("interactions", id, "pathVariables")
		if want == nil {
			if got != nil {
				errs = append(errs, fmt.Sprintf("%s: has pathVariables %s although no parameter of its path is declared", id, vlib.Canon(got)))
			}
			continue
		}
		nBound++
		vlib.CompareExpected("$.interactions."+id+".pathVariables", want, got, &errs)
		// statistics: bound prefixes shared by several interactions, depth
		path := id[strings.LastIndex(id, " ")+1:]
		_, prefixes := vlib.PathParamsOf(path)
		for i, p := range prefixes {
			shared[p]++
			if i >= 1 {
				deep = true
			}
		}
	}
	multi := false
	for _, n := range shared {
		if n >= 2 {
			multi = true
		}
	}
	info.NonTrivial = nBound >= 1 && (multi || deep)
	if multi {
		info.Class("prefix-shared-by-interactions")
	}
	if deep {
		info.Class("parameter-at-depth>=2")
	}
	info.Class("accepted")
	info.Sample = map[string]any{"source": r.Text}
	if len(errs) > 0 {
		return vlib.Failf("path-variables-differ", "pathVariables do not match the declared Path properties:\n  %s\n--- source:\n%s", strings.Join(errs, "\n  "), r.Text)
	}
	return nil
}

type c13Neg struct {
	Source string `json:"source"`
	Reason string `json:"reason"`
	// Lines (1-based) of the directives the diagnostic may point at.
	Lines []int `json:"lines"`
}

func genPathNegative(t *rapid.T) c13Neg {
	var sb strings.Builder
	sb.WriteString("JSIGHT 0.3\n")
	// unrelated blocks before the fault
	npad := rapid.IntRange(0, 3).Draw(t, "pad")
	for i := 0; i < npad; i++ {
		switch rapid.IntRange(0, 2).Draw(t, "padKind") {
		case 0:
			fmt.Fprintf(&sb, "TYPE @pad%d\n{\"p\": %d}\n", i, i)
		case 1:
			fmt.Fprintf(&sb, "GET /pad%d/{pp%d}\n  Path\n  {\"pp%d\": 1}\n  200 any\n", i, i, i)
		default:
			fmt.Fprintf(&sb, "URL /upad%d\n  POST\n    200 any\n", i)
		}
	}
	sb.WriteString("TYPE @obj\n{\"o\": 1}\nTYPE @scalar\n5\nTYPE @nested\n{\"n\": {\"m\": 1}}\n")
	line := func() int { return strings.Count(sb.String(), "\n") + 1 }
	var lines []int
	mark := func() { lines = append(lines, line()) }
	n := rapid.IntRange(1, 99).Draw(t, "n")
	host := rapid.SampledFrom([]string{"url", "method", "url-method"}).Draw(t, "host")
	// open writes the host and returns the indentation of its children
	open := func(path string) string {
		switch host {
		case "url":
			mark()
			fmt.Fprintf(&sb, "URL %s\n", path)
			return "  "
		case "method":
			mark()
			fmt.Fprintf(&sb, "GET %s\n", path)
			return "  "
		default:
			mark()
			fmt.Fprintf(&sb, "URL %s\n", path)
			mark()
			sb.WriteString("  GET\n")
			return "    "
		}
	}
	closeHost := func(ind string) {
		if host == "url" {
			sb.WriteString("  GET\n    200 any\n")
		} else {
			sb.WriteString(ind + "200 any\n")
		}
	}
	pathDir := func(ind, body string) {
		mark()
		sb.WriteString(ind + "Path\n")
		for _, l := range strings.Split(body, "\n") {
			sb.WriteString(ind + l + "\n")
		}
	}
	kind := rapid.SampledFrom([]string{"unused-property", "declared-twice-blocks", "declared-twice-macro", "empty-braces", "repeated-name",
		"body-array", "body-scalar", "body-string", "body-nested-object", "body-nested-array", "body-additionalProperties", "body-nullable", "body-or",
		"body-ref-scalar", "body-ref-nested", "body-or-shortcut", "no-body", "two-paths-adjacent", "two-paths-apart", "empty-object",
		"unused-property-no-parameters", "unused-property-no-parameters-macro", "body-nested-no-parameters", "body-typed-any-object", "body-typed-any-array"}).Draw(t, "kind")
	p1 := fmt.Sprintf("/c%d/{x}", n)
	switch kind {
	case "unused-property":
		ind := open(p1)
		pathDir(ind, `{"x": 1, "nosuch": 2}`)
		closeHost(ind)
	case "declared-twice-blocks":
		ind := open(p1)
		pathDir(ind, `{"x": 1}`)
		closeHost(ind)
		mark()
		fmt.Fprintf(&sb, "DELETE %s/more/{y}\n", p1)
		pathDir("  ", `{"x": 2, "y": 3}`)
		sb.WriteString("  200 any\n")
	case "declared-twice-macro":
		sb.WriteString("MACRO @pm\n(\n")
		mark()
		sb.WriteString("  Path\n  {\"x\": 1}\n)\n")
		mark()
		fmt.Fprintf(&sb, "GET %s\n", p1)
		mark()
		sb.WriteString("  PASTE @pm\n  200 any\n")
		mark()
		fmt.Fprintf(&sb, "PUT %s\n", p1)
		mark()
		sb.WriteString("  PASTE @pm\n  200 any\n")
	case "empty-braces":
		ind := open(fmt.Sprintf("/c%d/{}", n))
		closeHost(ind)
	case "repeated-name":
		ind := open(fmt.Sprintf("/c%d/{x}/d/{x}", n))
		closeHost(ind)
	case "body-array":
		ind := open(p1)
		pathDir(ind, `[1]`)
		closeHost(ind)
	case "body-scalar":
		ind := open(p1)
		pathDir(ind, `5`)
		closeHost(ind)
	case "body-string":
		ind := open(p1)
		pathDir(ind, `"x"`)
		closeHost(ind)
	case "body-nested-object":
		ind := open(p1)
		pathDir(ind, `{"x": {"a": 1}}`)
		closeHost(ind)
	case "body-nested-array":
		ind := open(p1)
		pathDir(ind, `{"x": [1, 2]}`)
		closeHost(ind)
	case "body-additionalProperties":
		ind := open(p1)
		pathDir(ind, "{ // {additionalProperties: true}\n  \"x\": 1\n}")
		closeHost(ind)
	case "body-nullable":
		ind := open(p1)
		pathDir(ind, "{ // {nullable: true}\n  \"x\": 1\n}")
		closeHost(ind)
	case "body-or":
		ind := open(p1)
		pathDir(ind, "{ // {or: [\"@obj\", \"@nested\"]}\n  \"x\": 1\n}")
		closeHost(ind)
	case "body-ref-scalar":
		ind := open(p1)
		pathDir(ind, `@scalar`)
		closeHost(ind)
	case "body-ref-nested":
		ind := open(fmt.Sprintf("/c%d/{n}", n))
		pathDir(ind, `@nested`)
		closeHost(ind)
	case "body-or-shortcut":
		ind := open(p1)
		pathDir(ind, `@obj | @nested`)
		closeHost(ind)
	case "no-body":
		ind := open(p1)
		mark()
		sb.WriteString(ind + "Path\n")
		closeHost(ind)
	case "two-paths-adjacent":
		ind := open(fmt.Sprintf("/c%d/{x}/{y}", n))
		pathDir(ind, `{"x": 1}`)
		pathDir(ind, `{"y": 2}`)
		closeHost(ind)
	case "two-paths-apart":
		mark()
		fmt.Fprintf(&sb, "URL /c%d/{x}/{y}/{z}\n(\n", n)
		pathDir("  ", `{"x": 1}`)
		sb.WriteString("  GET\n  (\n")
		pathDir("    ", `{"y": 2}`)
		sb.WriteString("    200 any\n  )\n")
		pathDir("  ", `{"z": 3}`)
		sb.WriteString(")\n")
	case "empty-object":
		ind := open(p1)
		pathDir(ind, `{}`)
		closeHost(ind)
	case "unused-property-no-parameters":
		// the host's path has no parameter at all
		ind := open(fmt.Sprintf("/c%d/plain", n))
		pathDir(ind, `{"nosuch": 2}`)
		closeHost(ind)
	case "unused-property-no-parameters-macro":
		sb.WriteString("MACRO @pm\n(\n")
		mark()
		sb.WriteString("  Path\n  {\"nosuch\": 1}\n)\n")
		ind := open(fmt.Sprintf("/c%d/plain", n))
		mark()
		sb.WriteString(ind + "PASTE @pm\n")
		closeHost(ind)
	case "body-nested-no-parameters":
		ind := open(fmt.Sprintf("/c%d/plain", n))
		pathDir(ind, `{"x": {"a": 1}}`)
		closeHost(ind)
	case "body-typed-any-object":
		// the value is an object literal even though its type rule says "any"
		ind := open(p1)
		pathDir(ind, "{\n  \"x\": {} // {type: \"any\"}\n}")
		closeHost(ind)
	case "body-typed-any-array":
		ind := open(p1)
		pathDir(ind, "{\n  \"x\": [] // {type: \"any\"}\n}")
		closeHost(ind)
	}
	return c13Neg{Source: sb.String(), Reason: kind, Lines: lines}
}

func c13NegCheck(c c13Neg, info *vlib.Info) *vlib.Failure {
	info.NonTrivial = true
	info.Class("neg:" + c.Reason)
	res := vlib.Run(vlib.Single(c.Source))
	if res.Panic != "" {
		return vlib.Failf("panic: "+res.Panic, "%s (%s)\n%s", res.Panic, c.Reason, c.Source)
	}
	if res.Accepted {
		return vlib.Failf("path-fault-accepted: "+c.Reason, "accepted although: %s\n--- source:\n%s", c.Reason, c.Source)
	}
	if res.Err == nil {
		return vlib.Failf("no-diagnostic", "%s", c.Source)
	}
	// located at the Path (or URL / method / PASTE) directive or inside its body
	ok := false
	for _, l := range c.Lines {
		if res.Err.Line >= l && res.Err.Line <= l+4 {
			ok = true
		}
	}
	if !ok {
		return vlib.Failf("path-fault-mislocated: "+c.Reason, "%s: diagnostic %q at line %d, the offending directives are at lines %v\n--- source:\n%s", c.Reason, res.Err.Msg, res.Err.Line, c.Lines, c.Source)
	}
	return nil
}

func TestC13(t *testing.T) {
	h := vlib.New(t, "C13", "exploration",
		"generated documents rich in path trees (shared prefixes, 0-3 parameters at any depth, Path under URL and under methods and through PASTE, parameters declared once for a prefix and used by longer paths, scalar / typed / referenced parameter schemas) against a reference binding table prefix -> declared property; 25 kinds of faulty variants (property matching no segment, parameter declared twice in two blocks or through one macro pasted twice, {} and repeated {x}, Path body that is an array / scalar / nested / has additionalProperties / nullable / or, reference to a non-flat type, Path without body, two Path directives under one parent) at random positions, the same on hosts whose path has no parameter at all, and object / array literals typed 'any'; parameter names over { } a - e-acute exhaustively to the tier's length (declared, another name declared, the brace-trimmed name declared, beside a plain parameter); non-trivial = a bound prefix shared by >= 2 interactions or a parameter bound at depth >= 2; distinct by document",
		"clean paths only (no empty segments)")
	req := []string{"accepted", "prefix-shared-by-interactions", "parameter-at-depth>=2"}
	for _, k := range []string{"unused-property", "declared-twice-blocks", "declared-twice-macro", "empty-braces", "repeated-name", "body-array", "body-scalar", "body-string", "body-nested-object", "body-nested-array", "body-additionalProperties", "body-nullable", "body-or", "body-ref-scalar", "body-ref-nested", "body-or-shortcut", "no-body", "two-paths-adjacent", "two-paths-apart", "empty-object",
		"unused-property-no-parameters", "unused-property-no-parameters-macro", "body-nested-no-parameters", "body-typed-any-object", "body-typed-any-array"} {
		req = append(req, "neg:"+k)
	}
	req = append(req, "shared-path-type", "shared-path-type-rejected")
	h.Require(req...)
	vlib.Rapid(h, "path-bindings", h.N(12000, 400000), func(t *rapid.T) docCase {
		doc := vlib.GenDoc(t, vlib.GenOpts{Macros: rapid.Bool().Draw(t, "macros"), PathHeavy: true})
		return docCase{Doc: doc, Style: genStyle(t, !doc.HasMultilineFreeText())}
	}, c13Positive)
	// several resources whose Path directives share one user type (`Path @ids`):
	// each resource alone decides what the document with all of them must give -
	// rejected if any one alone is rejected, else accepted with the same entries
	type sharedCase struct {
		TypeProps []string   `json:"typeProps"`
		Params    [][]string `json:"params"`
		Forms     []string   `json:"forms"`
		TypeLast  bool       `json:"typeLast"`
	}
	vlib.Rapid(h, "shared-path-type", h.N(1500, 60000), func(t *rapid.T) sharedCase {
		names := []string{"a", "b", "c"}
		c := sharedCase{TypeLast: rapid.Bool().Draw(t, "typeLast")}
		c.TypeProps = rapid.SliceOfNDistinct(rapid.SampledFrom(names), 1, 3, rapid.ID[string]).Draw(t, "typeProps")
		n := rapid.IntRange(2, 3).Draw(t, "urls")
		for i := 0; i < n; i++ {
			if rapid.IntRange(0, 2).Draw(t, "likeType") > 0 {
				c.Params = append(c.Params, rapid.Permutation(c.TypeProps).Draw(t, "params"))
			} else {
				c.Params = append(c.Params, rapid.SliceOfNDistinct(rapid.SampledFrom(names), 1, 3, rapid.ID[string]).Draw(t, "params"))
			}
			c.Forms = append(c.Forms, rapid.SampledFrom([]string{"type", "typebody", "typebody", "literal", "none"}).Draw(t, "form"))
		}
		return c
	}, func(c sharedCase, info *vlib.Info) *vlib.Failure {
		typ := "TYPE @ids\n{"
		for i, n := range c.TypeProps {
			if i > 0 {
				typ += ", "
			}
			typ += fmt.Sprintf("\"%s\": %d", n, 10+i)
		}
		typ += "}\n"
		url := func(i int) (string, string) {
			path := fmt.Sprintf("/u%d", i)
			lit := "{"
			for j, n := range c.Params[i] {
				path += "/{" + n + "}"
				if j > 0 {
					lit += ", "
				}
				lit += fmt.Sprintf("\"%s\": %d", n, 100*i+j)
			}
			lit += "}"
			s := "URL " + path + "\n"
			switch c.Forms[i] {
			case "type":
				s += "  Path @ids\n"
			case "typebody":
				s += "  Path\n    @ids\n"
			case "literal":
				s += "  Path\n  " + lit + "\n"
			}
			return s + "  GET\n    200 any\n", "http GET " + path
		}
		mk := func(body string) string {
			if c.TypeLast {
				return "JSIGHT 0.3\n" + body + typ
			}
			return "JSIGHT 0.3\n" + typ + body
		}
		all, ntype := "", 0
		for i := range c.Params {
			u, _ := url(i)
			all += u
			if c.Forms[i] == "type" || c.Forms[i] == "typebody" {
				ntype++
			}
		}
		info.Class("shared-path-type")
		info.NonTrivial = ntype >= 2
		multi := vlib.Run(vlib.Single(mk(all)))
		anyRejected := false
		for i := range c.Params {
			u, key := url(i)
			solo := vlib.Run(vlib.Single(mk(u)))
			if !solo.Accepted {
				anyRejected = true
				continue
			}
			if !multi.Accepted {
				continue
			}
			cs, e1 := vlib.ParseCatalog(solo.JSON)
			cm, e2 := vlib.ParseCatalog(multi.JSON)
			if e1 != nil || e2 != nil {
				return vlib.Failf("harness", "undecodable catalog")
			}
			a, b := cs.Obj("interactions").Get(key), cm.Obj("interactions").Get(key)
			if a == nil || vlib.Canon(a) != vlib.Canon(b) {
				return vlib.Failf("shared-path-type: entry-differs", "the entry %q differs between the document with this resource alone and the document with all resources\n--- alone:\n%s\n--- together:\n%s\n--- document:\n%s", key, vlib.Canon(a), vlib.Canon(b), mk(all))
			}
		}
		if anyRejected {
			info.Class("shared-path-type-rejected")
		}
		if anyRejected && multi.Accepted {
			return vlib.Failf("shared-path-type: fault-accepted", "a resource that is rejected alone is accepted beside other resources whose Path directive uses the same type\n%s", mk(all))
		}
		if !anyRejected && !multi.Accepted {
			return vlib.Failf("shared-path-type: valid-rejected", "every resource alone is accepted, all together are rejected: %v\n%s", multi.Err, mk(all))
		}
		return nil
	})
	// parameter names: a segment is a parameter when it starts with '{' and ends
	// with '}' (and is longer than one character); the name is what lies between,
	// braces included
	type nameCase struct {
		Name string `json:"name"`
		Form string `json:"form"`
	}
	vlib.Enum(h, "parameter-names-exhaustive", true, func(yield func(nameCase) bool) {
		i := 0
		eachString([]string{"{", "}", "a", "-", "é"}, h.Pick(3, 5), func(int) bool { return true }, func(name string) bool {
			for _, form := range []string{"declared", "other-name-declared", "trimmed-name-declared", "beside-plain-a"} {
				i++
				if h.Mine(i) && !yield(nameCase{name, form}) {
					return false
				}
			}
			return true
		})
	}, func(c nameCase, info *vlib.Info) *vlib.Failure {
		if c.Name == "" {
			return nil
		}
		info.NonTrivial = strings.ContainsAny(c.Name, "{}")
		info.Class("name-form:" + c.Form)
		path := "/c/{" + c.Name + "}/t"
		var body string
		wantKeys := []string{c.Name}
		accept := true
		switch c.Form {
		case "declared":
			body = fmt.Sprintf("{%q: 1}", c.Name)
		case "other-name-declared":
			if c.Name == "zz" {
				return nil
			}
			body, accept = `{"zz": 1}`, false
		case "trimmed-name-declared":
			tr := strings.Trim(c.Name, "{}")
			if tr == c.Name || tr == "" {
				return nil
			}
			body, accept = fmt.Sprintf("{%q: 1}", tr), false
		default:
			if c.Name == "a" {
				return nil
			}
			path = "/c/{a}/d/{" + c.Name + "}"
			body = fmt.Sprintf("{\"a\": 1, %q: 2}", c.Name)
			wantKeys = []string{"a", c.Name}
		}
		src := "JSIGHT 0.3\nGET " + path + "\n  Path\n  " + body + "\n  200 any\n"
		res := vlib.Run(vlib.Single(src))
		if res.Panic != "" {
			return nil // C01
		}
		if !accept {
			if res.Accepted {
				return vlib.Failf("path-fault-accepted: property-matches-no-segment", "accepted although the Path property matches no {name} segment of %s\n--- source:\n%s", path, src)
			}
			return nil
		}
		if !res.Accepted {
			return vlib.Failf("valid-document-rejected", "rejected (%s) although every parameter of %s is declared\n--- source:\n%s", res.Err.Msg, path, src)
		}
		cat, _ := vlib.ParseCatalog(res.JSON)
		children, _ := cat.Get("interactions", "http GET "+path, "pathVariables", "schema", "content", "children").([]any)
		var got []string
		for _, ch := range children {
			if m, ok := ch.(*vlib.OMap); ok {
				k, _ := m.Vals["key"].(string)
				got = append(got, k)
			}
		}
		if strings.Join(got, "\x00") != strings.Join(wantKeys, "\x00") {
			return vlib.Failf("path-variables-differ", "pathVariables of %s list %q, expected %q\n--- source:\n%s", path, got, wantKeys, src)
		}
		return nil
	})
	vlib.Rapid(h, "negative-path-declarations", h.N(8000, 200000), genPathNegative, c13NegCheck)
}
