package props

import (
	"fmt"
	"strings"

	"pgregory.net/rapid"

	"verif/vlib"
)

type c08Split struct {
	Doc   *vlib.Doc  `json:"doc"` // with INCLUDE nodes
	Style vlib.Style `json:"style"`
}

func c08SplitCheck(c c08Split, info *vlib.Info) *vlib.Failure {
	flat := c.Doc.Flat()
	n, depth := c.Doc.IncludeStats()
	info.NonTrivial = n >= 2 || depth >= 2
	if depth >= 2 {
		info.Class("include-depth>=2")
	}
	if n >= 2 {
		info.Class("includes>=2")
	}
	if n == 0 {
		info.Class("no-include")
	}
	a := vlib.Render(flat, vlib.Style{})
	b := vlib.Render(c.Doc, c.Style)
	ra := vlib.Run(vlib.Single(a.Text))
	rb := vlib.Run(b.Project())
	if ra.Accepted {
		info.Class("accepted")
	} else {
		info.Class("rejected")
	}
	var sb strings.Builder
	for name, text := range b.Files {
		fmt.Fprintf(&sb, "=== %s\n%s\n", name, text)
	}
	info.Sample = map[string]any{"files": b.Files}
	if rb.OpenErr != "" {
		return vlib.Failf("harness", "cannot open split project: %s", rb.OpenErr)
	}
	return sameOutcome("split", a.Text, sb.String(), ra, rb, vlib.RegexTypeReferenced(flat))
}

type c08NegProject struct {
	Project vlib.Project `json:"project"`
	Reason  string       `json:"reason"`
	// At: file and 1-based line where the diagnostic must be located.
	File string `json:"file"`
	Line int    `json:"line"`
}

func genIncludeNegative(t *rapid.T) c08NegProject {
	p := vlib.Project{Files: map[string]string{}, Root: "root.jst", Dirs: []string{"adir"}}
	body := "TYPE @a\n{}\n"
	kind := rapid.SampledFrom([]string{"cycle", "cycle", "missing", "directory", "jsight-in-included", "no-parameter"}).Draw(t, "kind")
	pad := strings.Repeat("# pad\n", rapid.IntRange(0, 3).Draw(t, "pad"))
	switch kind {
	case "cycle":
		k := rapid.IntRange(1, 5).Draw(t, "len")
		// root -> c1 -> c2 ... -> ck -> (back to one of root, c1..ck)
		names := []string{"root.jst"}
		for i := 1; i < k; i++ {
			names = append(names, fmt.Sprintf("c%d.jst", i))
		}
		back := rapid.IntRange(0, len(names)-1).Draw(t, "back")
		for i, n := range names {
			next := names[back]
			if i+1 < len(names) {
				next = names[i+1]
			}
			hdr := ""
			if i == 0 {
				hdr = "JSIGHT 0.3\n"
			}
			p.Files[n] = hdr + pad + fmt.Sprintf("TYPE @t%d\n{}\n", i) + "INCLUDE " + next + "\n"
		}
		last := names[len(names)-1]
		line := strings.Count(p.Files[last], "\n")
		return c08NegProject{Project: p, Reason: fmt.Sprintf("include cycle of length %d", k), File: last, Line: line}
	case "missing":
		p.Files["root.jst"] = "JSIGHT 0.3\n" + pad + body + "INCLUDE nothere.jst\n"
		return c08NegProject{Project: p, Reason: "missing file", File: "root.jst", Line: strings.Count(p.Files["root.jst"], "\n")}
	case "directory":
		p.Files["root.jst"] = "JSIGHT 0.3\n" + pad + body + "INCLUDE adir\n"
		return c08NegProject{Project: p, Reason: "target is a directory", File: "root.jst", Line: strings.Count(p.Files["root.jst"], "\n")}
	case "jsight-in-included":
		if rapid.IntRange(0, 2).Draw(t, "rootStartsWithInclude") == 0 {
			// the root file starts with INCLUDE: JSIGHT is the first directive of the project, but in an included file
			depth := rapid.IntRange(1, 3).Draw(t, "depth")
			p.Files["root.jst"] = pad + "INCLUDE i1.jst\n" + body
			for i := 1; i < depth; i++ {
				p.Files[fmt.Sprintf("i%d.jst", i)] = fmt.Sprintf("INCLUDE i%d.jst\n", i+1)
			}
			p.Files[fmt.Sprintf("i%d.jst", depth)] = "JSIGHT 0.3\n"
			return c08NegProject{Project: p, Reason: "JSIGHT in an included file", File: fmt.Sprintf("i%d.jst", depth), Line: 1}
		}
		p.Files["root.jst"] = "JSIGHT 0.3\n" + pad + "INCLUDE inc.jst\n"
		first := rapid.Bool().Draw(t, "first")
		if first {
			p.Files["inc.jst"] = "JSIGHT 0.3\n" + body
			return c08NegProject{Project: p, Reason: "JSIGHT in an included file", File: "inc.jst", Line: 1}
		}
		p.Files["inc.jst"] = body + "JSIGHT 0.3\n"
		return c08NegProject{Project: p, Reason: "JSIGHT in an included file", File: "inc.jst", Line: 3}
	default:
		tail := rapid.SampledFrom([]string{"\n", "", "\n" + body, " # c\n"}).Draw(t, "tail")
		p.Files["root.jst"] = "JSIGHT 0.3\n" + pad + body + "INCLUDE" + tail
		return c08NegProject{Project: p, Reason: "INCLUDE without a parameter", File: "root.jst", Line: 3 + strings.Count(pad, "\n") + 1}
	}
}

func c08NegCheck(c c08NegProject, info *vlib.Info) *vlib.Failure {
	info.NonTrivial = true
	info.Class("neg:" + strings.Join(strings.Fields(c.Reason)[:2], "-"))
	res := vlib.Run(c.Project)
	show := func() string {
		var sb strings.Builder
		for n, t := range c.Project.Files {
			fmt.Fprintf(&sb, "=== %s\n%s\n", n, t)
		}
		return sb.String()
	}
	if res.Panic != "" {
		return vlib.Failf("panic: "+res.Panic, "%s (%s)\n%s", res.Panic, c.Reason, show())
	}
	if res.Accepted {
		return vlib.Failf("include-fault-accepted: "+strings.Join(strings.Fields(c.Reason)[:2], " "), "accepted although: %s\n%s", c.Reason, show())
	}
	if res.Err == nil {
		return vlib.Failf("no-diagnostic", "%s", show())
	}
	if strings.HasPrefix(c.Reason, "include cycle") {
		// the statement only asks for a diagnostic; it must at least point into the project
		if _, ok := c.Project.Files[res.Err.File]; !ok {
			return vlib.Failf("include-fault-mislocated", "%s: diagnostic %q is located in %q, not a file of the project\n%s", c.Reason, res.Err.Msg, res.Err.AbsFile, show())
		}
		return nil
	}
	if res.Err.File != c.File || res.Err.Line != c.Line {
		return vlib.Failf("include-fault-mislocated", "%s: diagnostic %q at %s:%d, expected at the offending keyword %s:%d\n%s", c.Reason, res.Err.Msg, res.Err.File, res.Err.Line, c.File, c.Line, show())
	}
	return nil
}

func init() {
	c08Docs = func(h *vlib.H) {
		h.Require("include-depth>=2", "includes>=2", "accepted", "rejected", "neg:include-cycle", "neg:missing-file", "neg:target-is", "neg:JSIGHT-in", "neg:INCLUDE-without")
		maxDepth := h.Pick(4, 8)
		vlib.Rapid(h, "split-equivalence", h.N(6000, 250000), func(t *rapid.T) c08Split {
			doc := vlib.GenDoc(t, vlib.GenOpts{Macros: rapid.Bool().Draw(t, "macros")})
			if rapid.IntRange(0, 4).Draw(t, "faulty") == 0 {
				doc = injectAnyFault(t, doc)
			}
			return c08Split{Doc: vlib.SplitIntoFiles(t, doc, maxDepth), Style: genStyle(t, !doc.HasMultilineFreeText())}
		}, c08SplitCheck)
		vlib.Rapid(h, "negative-include-graphs", h.N(2000, 60000), genIncludeNegative, c08NegCheck)
	}
}
