package props

import (
	"fmt"
	"sort"
	"strings"
	"testing"

	"pgregory.net/rapid"

	"github.com/jsightapi/jsight-api-go-library/jerr"

	"verif/vlib"
)

type c18Case struct {
	Doc    *vlib.Doc  `json:"doc"` // may hold INCLUDE nodes
	Banned []string   `json:"banned"`
	Style  vlib.Style `json:"style"`
	// MissingTarget: the file of one INCLUDE is removed from the project (the
	// ban must be reported before the file is looked for).
	MissingTarget bool `json:"missingTarget,omitempty"`
	// BanSplit: pass the kinds as several options (see vlib.Project.BanSplit).
	BanSplit int `json:"banSplit,omitempty"`
}

// kindName maps a keyword to the name of its directive kind in the library's table.
func kindName(kw string) string {
	if vlib.IsCode(kw) {
		return "HTTP-response-code"
	}
	return kw
}

// occurrences returns, in document (= processing) order, the directives of the
// project whose kind is banned, with the route by which each is reached.
type occurrence struct {
	id    int
	kw    string
	route string // direct | included | in-pasted-macro | in-unused-macro
}

func bannedOccurrences(doc *vlib.Doc, banned map[string]bool) []occurrence {
	reach := vlib.ReachableMacros(doc.Flat())
	var out []occurrence
	var rec func(list []*vlib.Dir, route string)
	rec = func(list []*vlib.Dir, route string) {
		for _, d := range list {
			r := route
			if d.Kw == "MACRO" && route != "included-macro" {
				if len(d.Params) > 0 && reach[d.Params[0]] {
					r = "in-pasted-macro"
				} else {
					r = "in-unused-macro"
				}
			}
			if banned[kindName(d.Kw)] {
				rr := r
				if d.Kw == "MACRO" {
					rr = route
				}
				out = append(out, occurrence{d.ID, d.Kw, rr})
			}
			if d.Kw == "INCLUDE" {
				inc := "included"
				if r == "in-pasted-macro" || r == "in-unused-macro" {
					inc = r
				}
				rec(d.Included, inc)
				continue
			}
			rec(d.Children, r)
		}
	}
	rec(doc.Top, "direct")
	return out
}

func c18Check(c c18Case, info *vlib.Info) *vlib.Failure {
	banned := map[string]bool{}
	for _, b := range c.Banned {
		banned[b] = true
	}
	r := vlib.Render(c.Doc, c.Style)
	p := r.Project()
	occ := bannedOccurrences(c.Doc, banned)
	missing := ""
	if c.MissingTarget && banned["INCLUDE"] {
		// remove the target of the first INCLUDE
		for _, o := range occ {
			if o.kw == "INCLUDE" {
				var find func(list []*vlib.Dir) *vlib.Dir
				find = func(list []*vlib.Dir) *vlib.Dir {
					for _, d := range list {
						if d.ID == o.id {
							return d
						}
						if x := find(d.Children); x != nil {
							return x
						}
						if x := find(d.Included); x != nil {
							return x
						}
					}
					return nil
				}
				if d := find(c.Doc.Top); d != nil {
					sp := r.Spans[d.ID]
					dirOf := ""
					if i := strings.LastIndex(sp.File, "/"); i >= 0 {
						dirOf = sp.File[:i+1]
					}
					missing = dirOf + d.Params[0]
					delete(p.Files, missing)
					info.Class("include-target-missing")
				}
				break
			}
		}
	}
	show := func() string {
		var sb strings.Builder
		keys := make([]string, 0, len(p.Files))
		for n := range p.Files {
			keys = append(keys, n)
		}
		sort.Strings(keys)
		for _, n := range keys {
			fmt.Fprintf(&sb, "=== %s\n%s\n", n, vlib.StripCR(p.Files[n]))
		}
		return sb.String()
	}
	with := p
	with.Banned = c.Banned
	with.BanSplit = c.BanSplit
	if c.BanSplit > 0 && len(c.Banned) > c.BanSplit {
		info.Class("several-option-values")
	}
	resBan := vlib.Run(with)
	if resBan.Panic != "" {
		return vlib.Failf("panic: "+resBan.Panic, "%s\nbanned %v\n%s", resBan.Panic, c.Banned, show())
	}
	n := 0
	c.Doc.Flat().Walk(func(*vlib.Dir, *vlib.Dir) { n++ })
	// occurrences that count: everything except directives inside a macro that
	// is never pasted (such a macro contributes nothing)
	// every occurrence counts, also one inside a macro that is never pasted: the
	// directive is written in the project
	live := occ
	for _, b := range c.Banned {
		info.Class("ban:" + b)
	}
	if len(live) == 0 {
		// (b) nothing banned occurs: exactly the result without the option
		info.Class("absent")
		info.NonTrivial = n >= 5
		resPlain := vlib.Run(p)
		if resPlain.Accepted != resBan.Accepted || resPlain.JSON != resBan.JSON || (resPlain.Err != nil) != (resBan.Err != nil) ||
			(resPlain.Err != nil && (resPlain.Err.Msg != resBan.Err.Msg || resPlain.Err.Index != resBan.Err.Index || resPlain.Err.File != resBan.Err.File)) {
			if k := vlib.SameCatalog(vlib.RegexTypeReferenced(c.Doc.Flat()), resPlain.JSON, resBan.JSON); k == vlib.KeyRegexExample && resPlain.Accepted && resBan.Accepted {
				return vlib.Failf(k, "results differ only in regex-derived examples")
			}
			return vlib.Failf("ban-changes-unrelated-project", "banning %v, none of which occurs, changes the result (accepted %v -> %v, error %v -> %v)\n%s", c.Banned, resPlain.Accepted, resBan.Accepted, errMsg(resPlain), errMsg(resBan), show())
		}
		return nil
	}
	// (a) a banned kind occurs
	info.Class("present")
	for _, o := range live {
		info.Class("route:" + o.route)
	}
	first := live[0]
	info.NonTrivial = true
	info.Sample = map[string]any{"banned": c.Banned, "files": p.Files}
	if resBan.Accepted {
		return vlib.Failf("banned-directive-accepted: "+kindName(first.kw)+" "+first.route, "banned %v; the project holds a %s (%s) and is accepted\n%s", c.Banned, first.kw, first.route, show())
	}
	if !strings.Contains(resBan.Err.Msg, jerr.DirectiveNotAllowed) {
		// another diagnostic may legitimately come first only if it is located
		// before the first banned directive in processing order; keep it simple:
		// the model documents are valid, so the only fault is the ban
		return vlib.Failf("banned-directive-other-diagnostic: "+kindName(first.kw)+" "+first.route, "banned %v; the project holds a %s (%s) but the diagnostic is %q\n%s", c.Banned, first.kw, first.route, resBan.Err.Msg, show())
	}
	// located at a directive of a banned kind (or at the PASTE bringing it in)
	ok := false
	var spans []vlib.Span
	for _, o := range occ { // an occurrence inside a never-pasted macro may be the one reported
		sp := r.Spans[o.id]
		spans = append(spans, sp)
		if sp.File == resBan.Err.File && resBan.Err.Index >= sp.Begin && resBan.Err.Index < sp.Begin+len(o.kw) {
			ok = true
		}
	}
	if !ok {
		return vlib.Failf("ban-mislocated", "banned %v: diagnostic %q at %s byte %d (line %d) is not at the keyword of a banned directive %v\n%s", c.Banned, resBan.Err.Msg, resBan.Err.File, resBan.Err.Index, resBan.Err.Line, spans, show())
	}
	return nil
}

func errMsg(r vlib.Result) string {
	if r.Err == nil {
		return "<none>"
	}
	return r.Err.Msg
}

func TestC18(t *testing.T) {
	h := vlib.New(t, "C18", "fault_enumeration",
		"option sets (every singleton of the 30 kinds, pairs with INCLUDE / MACRO / PASTE, sampled larger sets) x valid generated projects, cut into files or not, that do or do not hold a directive of a banned kind (directly, in a pasted macro, in an included file, in a never-pasted macro; INCLUDE also with its target file removed); oracle: occurrence => rejected with the 'not allowed' diagnostic at the keyword of a banned directive (so before the named file is needed), no occurrence => verdict, diagnostic and JSON identical to the run without the option; option values kept by the caller and reused for other projects together with other bans must behave like fresh ones; non-trivial = occurrence present, or absent with >= 5 directives; distinct by (project, option set)",
		"'before any file it names is read' is observed through a missing target: the diagnostic must be the ban, not 'isn't exists'")
	defer vlib.CleanupScratch()
	kinds := vlib.KindNames()
	req := []string{"present", "absent", "route:direct", "route:included", "route:in-pasted-macro", "route:in-unused-macro", "include-target-missing", "several-option-values", "reused-option-values"}
	for _, k := range kinds {
		req = append(req, "ban:"+k)
	}
	h.Require(req...)
	gen := func(t *rapid.T) c18Case {
		doc := vlib.GenDoc(t, vlib.GenOpts{Macros: rapid.IntRange(0, 2).Draw(t, "macros") > 0, TopPasteAnywhere: true})
		if rapid.Bool().Draw(t, "split") {
			doc = vlib.SplitIntoFiles(t, doc, 3)
		}
		var banned []string
		switch rapid.IntRange(0, 5).Draw(t, "setShape") {
		case 0, 1, 2:
			banned = []string{rapid.SampledFrom(kinds).Draw(t, "kind")}
		case 3:
			banned = []string{rapid.SampledFrom([]string{"INCLUDE", "MACRO", "PASTE"}).Draw(t, "k1"), rapid.SampledFrom(kinds).Draw(t, "k2")}
		case 4:
			banned = []string{rapid.SampledFrom([]string{"INCLUDE", "MACRO", "PASTE"}).Draw(t, "k1")}
		default:
			banned = rapid.SliceOfNDistinct(rapid.SampledFrom(kinds), 2, 6, rapid.ID[string]).Draw(t, "set")
		}
		st := genStyle(t, !doc.Flat().HasMultilineFreeText())
		return c18Case{Doc: doc, Banned: banned, Style: st, MissingTarget: rapid.Bool().Draw(t, "missingTarget"), BanSplit: rapid.IntRange(0, 2).Draw(t, "banSplit")}
	}
	runRegression(h, c18Regression)
	vlib.Rapid(h, "bans-over-generated-projects", h.N(20000, 600000), gen, c18Check)

	// option values kept by the caller and given to several projects: what one
	// project's option set holds must not leak into another's
	type reuse struct {
		A, B   string
		K1, K2 []string
	}
	vlib.Rapid(h, "reused-ban-option-values", h.N(2000, 80000), func(t *rapid.T) reuse {
		d1 := vlib.GenDoc(t, vlib.GenOpts{Macros: rapid.Bool().Draw(t, "m1"), TopPasteAnywhere: true})
		d2 := vlib.GenDoc(t, vlib.GenOpts{Macros: rapid.Bool().Draw(t, "m2"), TopPasteAnywhere: true})
		return reuse{A: vlib.Render(d1, vlib.Style{}).Text, B: vlib.Render(d2, vlib.Style{}).Text,
			K1: rapid.SliceOfNDistinct(rapid.SampledFrom(kinds), 1, 2, rapid.ID[string]).Draw(t, "k1"),
			K2: rapid.SliceOfNDistinct(rapid.SampledFrom(kinds), 1, 3, rapid.ID[string]).Draw(t, "k2")}
	}, func(c reuse, info *vlib.Info) *vlib.Failure {
		info.NonTrivial = true
		info.Class("reused-option-values")
		key := func(r vlib.Result) string {
			if r.Accepted {
				return "OK " + vlib.MaskExamples(r.JSON)
			}
			return "REJECTED " + errMsg(r)
		}
		o1, o2 := vlib.BanOption(c.K1...), vlib.BanOption(c.K2...)
		want1 := key(vlib.RunWithOptions(c.B, vlib.FixedSeedOption(), vlib.BanOption(c.K1...)))
		want2 := key(vlib.RunWithOptions(c.B, vlib.FixedSeedOption(), vlib.BanOption(c.K2...)))
		_ = vlib.RunWithOptions(c.A, vlib.FixedSeedOption(), o1, o2)
		got1 := key(vlib.RunWithOptions(c.B, vlib.FixedSeedOption(), o1))
		got2 := key(vlib.RunWithOptions(c.B, vlib.FixedSeedOption(), o2))
		if got1 != want1 {
			return vlib.Failf("ban-leaks-between-option-values", "ban %v: after the option value was used together with a ban of %v for another project, a project gives\n%s\ninstead of\n%s\n--- source:\n%s", c.K1, c.K2, trunc(got1, 300), trunc(want1, 300), c.B)
		}
		if got2 != want2 {
			return vlib.Failf("ban-leaks-between-option-values", "ban %v: after the option value was used together with a ban of %v for another project, a project gives\n%s\ninstead of\n%s\n--- source:\n%s", c.K2, c.K1, trunc(got2, 300), trunc(want2, 300), c.B)
		}
		return nil
	})
}
