package props

import (
	"fmt"
	"strings"
	"testing"

	"pgregory.net/rapid"

	"github.com/jsightapi/jsight-api-go-library/core"

	"verif/vlib"
)

func isBlankLine(s string) bool { return strings.Trim(s, " \t") == "" }

func leadingBlanks(s string) string { return s[:len(s)-len(strings.TrimLeft(s, " \t"))] }

func lcp(a, b string) string {
	i := 0
	for i < len(a) && i < len(b) && a[i] == b[i] {
		i++
	}
	return a[:i]
}

// descReference is the tolerant reference of relation 3 for a bare text in LF
// form: surrounding blank lines removed, common indentation removed. Two
// readings of "common indentation" are allowed (over all non-empty lines, or
// over the lines that have text); it returns both candidates.
func descReference(x string) [][]string {
	lines := strings.Split(x, "\n")
	for len(lines) > 0 && isBlankLine(lines[0]) {
		lines = lines[1:]
	}
	for len(lines) > 0 && isBlankLine(lines[len(lines)-1]) {
		lines = lines[:len(lines)-1]
	}
	if len(lines) == 0 {
		return nil
	}
	var out [][]string
	for mode := 0; mode < 2; mode++ {
		p, first := "", true
		for _, l := range lines {
			if l == "" || (mode == 1 && isBlankLine(l)) {
				continue
			}
			if first {
				p, first = leadingBlanks(l), false
			} else {
				p = lcp(p, leadingBlanks(l))
			}
		}
		c := make([]string, len(lines))
		for i, l := range lines {
			c[i] = strings.TrimPrefix(l, p)
		}
		out = append(out, c)
	}
	return out
}

func matchesReference(res string, cands [][]string) bool {
	got := strings.Split(res, "\n")
	for _, c := range cands {
		if len(c) != len(got) {
			continue
		}
		ok := true
		for i := range c {
			w, g := c[i], got[i]
			if isBlankLine(w) {
				if !isBlankLine(g) {
					ok = false
				}
				continue
			}
			if i == len(c)-1 {
				w, g = strings.TrimRight(w, " \t"), strings.TrimRight(g, " \t")
			}
			if w != g {
				ok = false
			}
		}
		if ok {
			return true
		}
	}
	return false
}

func descHook(x string) (string, error) {
	b, err := core.VerifDescription([]byte(x))
	return string(b), err
}

// looksParenthesised: the text, trimmed, starts with '(' (the scanner and the
// normaliser then read it as the parenthesised spelling).
func startsWithParen(x string) bool {
	return strings.HasPrefix(strings.TrimLeft(x, " \t\r\n"), "(")
}

// c15Hook checks relations 1-5 on the normaliser for one text in LF form.
func c15Hook(x string, info *vlib.Info) *vlib.Failure {
	info.NonTrivial = strings.Count(x, "\n") >= 1 || strings.ContainsAny(x, "\t") && strings.Contains(x, " ")
	res, err := descHook(x)
	if err != nil {
		info.Class("hook:error")
	} else if res == "" {
		info.Class("hook:empty")
	} else {
		info.Class("hook:text")
	}
	hasCR := strings.Contains(x, "\r")
	// (1) no CR in the result; newline spelling is immaterial
	if err == nil && strings.Contains(res, "\r") {
		return vlib.Failf("desc-cr-left", "description(%q) = %q still holds a CR", x, res)
	}
	if !hasCR {
		for name, nl := range map[string]string{"CRLF": "\r\n", "CR": "\r"} {
			y := strings.ReplaceAll(x, "\n", nl)
			r2, e2 := descHook(y)
			if (e2 == nil) != (err == nil) || (err == nil && r2 != res) {
				return vlib.Failf("desc-newline-spelling", "description(%q) = %q,%v but its %s spelling gives %q,%v", x, res, err, name, r2, e2)
			}
		}
	}
	if err != nil {
		return nil
	}
	// (2) no surrounding line ends
	if strings.HasPrefix(res, "\n") || strings.HasSuffix(res, "\n") {
		return vlib.Failf("desc-surrounding-newline", "description(%q) = %q starts or ends with a line end", x, res)
	}
	// (3) common indentation removed, relative indentation kept (bare LF texts)
	if !hasCR && !startsWithParen(x) {
		cands := descReference(x)
		if cands == nil {
			if res != "" {
				return vlib.Failf("desc-blank-not-empty", "description(%q) = %q for a text without any non-blank byte", x, res)
			}
		} else if !matchesReference(res, cands) {
			return vlib.Failf("desc-indentation", "description(%q) = %q; expected the lines %q (surrounding blank lines and the common indentation removed)", x, res, cands[len(cands)-1])
		}
	}
	// (4) idempotence
	if res != "" && !startsWithParen(res) {
		r2, e2 := descHook(res)
		if e2 != nil || r2 != res {
			return vlib.Failf("desc-not-idempotent", "description(%q) = %q but normalising that again gives %q,%v", x, res, r2, e2)
		}
	} else if startsWithParen(res) {
		info.Excluded = "relation 4 not applicable: normal form starts with '(' (content is parenthesised)"
	}
	// (5) parenthesised spelling of the same text
	if !hasCR && !startsWithParen(x) {
		y := "(\n" + x + "\n)"
		r2, e2 := descHook(y)
		if e2 != nil || r2 != res {
			return vlib.Failf("desc-paren-spelling", "description(%q) = %q but the parenthesised spelling %q gives %q,%v", x, res, y, r2, e2)
		}
	}
	return nil
}

var c15Keywords = []string{"JSIGHT", "INFO", "Title", "Version", "Description", "SERVER", "BaseUrl", "URL", "GET", "POST", "PUT",
	"PATCH", "DELETE", "Body", "Request", "Path", "Headers", "Query", "TYPE", "ENUM", "MACRO", "PASTE", "INCLUDE", "Protocol",
	"Method", "Params", "Result", "TAG", "Tags"}

// lineEndsBareText: the documented look-ahead - a line whose first non-blank
// bytes are a directive keyword (prefix match), a three-digit response code
// 1xx..5xx, or ')' ends a bare description.
func lineEndsBareText(line string) bool {
	l := strings.TrimLeft(line, " \t")
	if strings.HasPrefix(l, ")") {
		return true
	}
	if len(l) >= 3 && l[0] >= '1' && l[0] <= '5' && isDigit(l[1]) && isDigit(l[2]) {
		return true
	}
	for _, k := range c15Keywords {
		if strings.HasPrefix(l, k) {
			return true
		}
	}
	return false
}

func isDigit(c byte) bool { return c >= '0' && c <= '9' }

type c15E2E struct {
	Host  string `json:"host"`  // INFO | HTTP | RPC | TAG
	Paren bool   `json:"paren"` // parenthesised spelling
	NL    string `json:"nl"`    // LF | CRLF | CR
	Text  string `json:"text"`  // in LF form
}

func c15Doc(c c15E2E) (src string, path []string) {
	body := c.Text
	if c.Paren {
		body = "(\n" + c.Text + "\n)"
	}
	switch c.Host {
	case "INFO":
		src = "JSIGHT 0.3\nINFO\n  Description\n" + body + "\n"
		path = []string{"info", "description"}
	case "HTTP":
		src = "JSIGHT 0.3\nGET /a\n  Description\n" + body + "\n"
		path = []string{"interactions", "http GET /a", "description"}
	case "RPC":
		src = "JSIGHT 0.3\nURL /a\n  Protocol json-rpc-2.0\n  Method m\n    Description\n" + body + "\n"
		path = []string{"interactions", "json-rpc-2.0 m /a", "description"}
	default:
		src = "JSIGHT 0.3\nTAG @t\n  Description\n" + body + "\n"
		path = []string{"tags", "@t", "description"}
	}
	switch c.NL {
	case "CRLF":
		src = strings.ReplaceAll(src, "\n", "\r\n")
	case "CR":
		src = strings.ReplaceAll(src, "\n", "\r")
	}
	return src, path
}

// c15EndToEnd checks relation 6 (and the rejection of blank descriptions).
func c15EndToEnd(c c15E2E, info *vlib.Info) *vlib.Failure {
	src, path := c15Doc(c)
	lines := strings.Split(c.Text, "\n")
	expressible := !startsWithParen(c.Text)
	first := true
	for _, l := range lines {
		if isBlankLine(l) {
			continue
		}
		// the first text line is text whatever it looks like? No: a keyword there
		// is a directive. So every non-blank line counts.
		_ = first
		first = false
		if lineEndsBareText(l) {
			expressible = false
		}
	}
	if c.Paren {
		// inside parentheses only a line consisting of ')' ends the text
		expressible = true
		for _, l := range lines {
			if strings.HasPrefix(strings.TrimLeft(l, " \t"), ")") {
				expressible = false
			}
		}
		if startsWithParen(c.Text) {
			expressible = false
		}
	}
	info.Class("host:" + c.Host)
	info.Class("nl:" + c.NL)
	if c.Paren {
		info.Class("spelling:parenthesised")
	} else {
		info.Class("spelling:bare")
	}
	info.NonTrivial = strings.Count(c.Text, "\n") >= 1 || lineEndsBareText(c.Text)
	res := vlib.Run(vlib.Single(src))
	if res.Panic != "" {
		return vlib.Failf("panic", "%q panics: %s", src, res.Panic)
	}
	if !expressible {
		info.Class("not-expressible")
		// The text is not the whole body. For the bare spelling the documented
		// look-ahead says where the body ends: before the first keyword-looking
		// line. When the rest happens to be a valid continuation, the description
		// must be the normalised lines before it.
		if !c.Paren && !startsWithParen(c.Text) && res.Accepted {
			k := -1
			for i, l := range lines {
				if !isBlankLine(l) && lineEndsBareText(l) {
					k = i
					break
				}
			}
			if k > 0 {
				head := strings.Join(lines[:k], "\n")
				if want, herr := descHook(head); herr == nil && want != "" {
					info.Class("bare-text-ended-by-keyword-line")
					if cat, err := vlib.ParseCatalog(res.JSON); err == nil {
						if got, _ := cat.Str(path...); got != want {
							return vlib.Failf("description-lookahead", "%q: description is %q, the text before the first keyword-looking line normalises to %q", src, got, want)
						}
					}
				}
			}
		}
		return nil
	}
	want, herr := descHook(c.Text)
	blank := strings.Trim(c.Text, " \t\n") == ""
	if blank || herr != nil || want == "" {
		info.Class("blank-description")
		if res.Accepted {
			return vlib.Failf("blank-description-accepted", "%q: a description without text is accepted", src)
		}
		return nil
	}
	if !res.Accepted {
		return vlib.Failf("description-rejected", "%q: rejected (%s) although the description text is %q", src, res.Err.Msg, want)
	}
	cat, err := vlib.ParseCatalog(res.JSON)
	if err != nil {
		return vlib.Failf("bad-json", "%v", err)
	}
	got, ok := cat.Str(path...)
	if !ok {
		return vlib.Failf("description-missing", "%q: no description at %v", src, path)
	}
	if got != want {
		return vlib.Failf("description-differs", "%q: description at %v is %q, the normalised text is %q", src, path, got, want)
	}
	return nil
}

type c15Ann struct {
	Multi bool   `json:"multiline"` // /* */ spelling
	Text  string `json:"text"`
}

func collapse(s string) string { return strings.Join(strings.Fields(s), " ") }

// c15Annotation checks relation 7.
func c15Annotation(c c15Ann, info *vlib.Info) *vlib.Failure {
	var src, text string
	if c.Multi {
		if strings.Contains(c.Text, "*/") {
			info.Class("ann:not-expressible")
			return nil
		}
		src = "JSIGHT 0.3\nGET /a /*" + c.Text + "*/\n  200 any\n"
		text = c.Text
		info.Class("ann:/* */")
	} else {
		if strings.ContainsAny(c.Text, "\n\r") {
			info.Class("ann:not-expressible")
			return nil
		}
		src = "JSIGHT 0.3\nGET /a //" + c.Text + "\n  200 any\n"
		text = c.Text
		if i := strings.Index(text, "#"); i >= 0 {
			text = text[:i] // '#' starts a comment on a '//' annotation line
		}
		info.Class("ann://")
	}
	want := collapse(text)
	info.NonTrivial = strings.ContainsAny(c.Text, " \t\n") && want != ""
	res := vlib.Run(vlib.Single(src))
	if res.Panic != "" {
		return vlib.Failf("panic", "%q panics: %s", src, res.Panic)
	}
	if !res.Accepted {
		return vlib.Failf("annotation-rejected", "%q rejected: %s", src, res.Err.Msg)
	}
	cat, err := vlib.ParseCatalog(res.JSON)
	if err != nil {
		return vlib.Failf("bad-json", "%v", err)
	}
	got, ok := cat.Str("interactions", "http GET /a", "annotation")
	if want == "" {
		if ok && got != "" {
			return vlib.Failf("annotation-differs", "%q: annotation %q for a blank text", src, got)
		}
		return nil
	}
	if got != want {
		return vlib.Failf("annotation-differs", "%q: annotation is %q, expected %q (whitespace runs collapsed, trimmed)", src, got, want)
	}
	return nil
}

func eachString(alpha []string, maxLen int, mine func(int) bool, yield func(string) bool) {
	idx := 0
	for l := 0; l <= maxLen; l++ {
		seq := make([]int, l)
		for {
			if mine(idx) {
				var sb strings.Builder
				for _, k := range seq {
					sb.WriteString(alpha[k])
				}
				if !yield(sb.String()) {
					return
				}
			}
			idx++
			k := l - 1
			for k >= 0 {
				seq[k]++
				if seq[k] < len(alpha) {
					break
				}
				seq[k] = 0
				k--
			}
			if k < 0 {
				break
			}
		}
	}
}

func TestC15(t *testing.T) {
	h := vlib.New(t, "C15", "exploration",
		"description texts over {a, b, space, tab, LF, CR, '(', ')', '#'} through the normaliser hook (exhaustive to the tier's length, random to 400 bytes) and over {a, space, tab, LF, '(', ')', '#', GET, 200, 2, Path, Body} end to end in the four hosts x bare/parenthesised x LF/CRLF/CR; annotation texts over {a, space, tab, '#', '/', '*', LF} in both spellings; non-trivial = >= 2 lines or mixed indentation or a keyword-looking line; distinct by text (and host/spelling)",
		"relations checked are exactly the ones stated in the property; two readings of 'common indentation' (over all non-empty lines / over lines with text) are both accepted")
	h.Require("bare-text-ended-by-keyword-line", "hook:text", "hook:empty", "host:INFO", "host:HTTP", "host:RPC", "host:TAG", "spelling:bare", "spelling:parenthesised", "nl:CR", "nl:CRLF", "blank-description", "ann://", "ann:/* */")

	hookAlpha := []string{"a", "b", " ", "\t", "\n", "\r", "(", ")", "#"}
	vlib.Enum(h, "normaliser-exhaustive", true, func(yield func(string) bool) {
		eachString(hookAlpha, h.Pick(6, 7), h.Mine, yield)
	}, c15Hook)

	vlib.Rapid(h, "normaliser-random", h.N(30000, 1000000), func(t *rapid.T) string {
		n := rapid.IntRange(1, 30).Draw(t, "lines")
		var sb strings.Builder
		for i := 0; i < n; i++ {
			sb.WriteString(rapid.SampledFrom([]string{"", " ", "  ", "    ", "\t", " \t", "\t "}).Draw(t, "indent"))
			sb.WriteString(rapid.SampledFrom([]string{"", "", "text", "a b", "(", ")", "# x", "GET", "more  words\there", "x "}).Draw(t, "content"))
			sb.WriteString(rapid.SampledFrom([]string{"\n", "\n", "\n", "\r\n", "\r"}).Draw(t, "nl"))
		}
		return sb.String()
	}, c15Hook)

	e2eAlpha := []string{"a", " ", "\t", "\n", "(", ")", "#", "GET", "200", "2", "Path", "Body", "200 any"}
	maxE2E := h.Pick(3, 4)
	vlib.Enum(h, "end-to-end-exhaustive", true, func(yield func(c15E2E) bool) {
		idx := 0
		eachString(e2eAlpha, maxE2E, func(int) bool { return true }, func(s string) bool {
			for _, host := range []string{"INFO", "HTTP", "RPC", "TAG"} {
				for _, paren := range []bool{false, true} {
					for _, nl := range []string{"LF", "CRLF", "CR"} {
						if h.Mine(idx) {
							if !yield(c15E2E{Host: host, Paren: paren, NL: nl, Text: s}) {
								return false
							}
						}
						idx++
					}
				}
			}
			return true
		})
	}, c15EndToEnd)

	vlib.Rapid(h, "end-to-end-random", h.N(8000, 300000), func(t *rapid.T) c15E2E {
		n := rapid.IntRange(1, 8).Draw(t, "lines")
		var ll []string
		for i := 0; i < n; i++ {
			ll = append(ll, rapid.SampledFrom([]string{"", "  ", "    ", "\t"}).Draw(t, "indent")+
				rapid.SampledFrom([]string{"", "text", "a b", "x (y)", "# x", "Pathology", "2 cents", "200 ok", "get", "line  two", "Bodyguard"}).Draw(t, "content"))
		}
		return c15E2E{
			Host:  rapid.SampledFrom([]string{"INFO", "HTTP", "RPC", "TAG"}).Draw(t, "host"),
			Paren: rapid.Bool().Draw(t, "paren"),
			NL:    rapid.SampledFrom([]string{"LF", "CRLF", "CR"}).Draw(t, "nl"),
			Text:  strings.Join(ll, "\n"),
		}
	}, c15EndToEnd)

	annAlpha := []string{"a", " ", "\t", "#", "/", "*", "\n"}
	vlib.Enum(h, "annotations-exhaustive", true, func(yield func(c15Ann) bool) {
		idx := 0
		eachString(annAlpha, h.Pick(5, 6), func(int) bool { return true }, func(s string) bool {
			for _, multi := range []bool{false, true} {
				if h.Mine(idx) {
					if !yield(c15Ann{Multi: multi, Text: s}) {
						return false
					}
				}
				idx++
			}
			return true
		})
	}, c15Annotation)
	_ = fmt.Sprint
}
