package props

import (
	"bytes"
	"strings"
	"testing"
	"unicode/utf8"

	"pgregory.net/rapid"

	"github.com/jsightapi/jsight-api-go-library/directive"

	"verif/vlib"
)

type c17Case struct {
	Host   string `json:"host"` // Title Version BaseUrl Query Path Method
	Value  string `json:"value"`
	Quoted bool   `json:"quoted"`
	// Sep: what follows the parameter on its line (blanks, a comment).
	Sep string `json:"sep,omitempty"`
}

func c17Quote(v string) string {
	v = strings.ReplaceAll(v, `\`, `\\`)
	v = strings.ReplaceAll(v, `"`, `\"`)
	return `"` + v + `"`
}

// bareLegal: the value means itself when written without quotes.
func bareLegal(v string) bool {
	if v == "" || strings.ContainsAny(v, " \t#") || strings.HasPrefix(v, `"`) || strings.HasPrefix(v, "//") || strings.HasPrefix(v, "/*") {
		return false
	}
	return true
}

// c17Doc renders the document for a host; param is the parameter as written.
func c17Doc(host, param, value string) (src string, path []string) {
	switch host {
	case "Title":
		return "JSIGHT 0.3\nINFO\n  Title " + param + "\n", []string{"info", "title"}
	case "Version":
		return "JSIGHT 0.3\nINFO\n  Version " + param + "\n", []string{"info", "version"}
	case "BaseUrl":
		return "JSIGHT 0.3\nSERVER @s\n  BaseUrl " + param + "\n", []string{"servers", "@s", "baseUrl"}
	case "Query":
		return "JSIGHT 0.3\nGET /q\n  Query " + param + "\n  {\"a\": 1}\n  200 any\n", []string{"interactions", "http GET /q", "query", "example"}
	case "Path":
		return "JSIGHT 0.3\nGET " + param + "\n  200 any\n", []string{"interactions", "http GET " + value, "path"}
	case "URL":
		return "JSIGHT 0.3\nURL " + param + "\n  POST\n    200 any\n", []string{"interactions", "http POST " + value, "path"}
	default: // Method
		return "JSIGHT 0.3\nURL /r\n  Protocol json-rpc-2.0\n  Method " + param + "\n    Params\n    {}\n", []string{"interactions", "json-rpc-2.0 " + value + " /r", "method"}
	}
}

func c17Value(host, raw string) string {
	if host == "Path" || host == "URL" {
		return "/" + raw
	}
	return raw
}

// c17Include: the file name of an INCLUDE is a parameter like any other. The
// name is f<value>.jst; it is read back by finding the included file's type
// in the catalog. A backslash in a file name is refused by the INCLUDE rules
// (C08), a slash would mean a directory: both are left to C08.
func c17Include(c c17Case, info *vlib.Info) *vlib.Failure {
	if strings.ContainsAny(c.Value, "/\\") {
		info.Class("include-name-left-to-C08")
		return nil
	}
	name := "f" + c.Value + ".jst"
	param := name
	if c.Quoted {
		param = c17Quote(name)
		info.Class("quoted")
	} else {
		if !bareLegal(name) {
			info.Class("not-bare-legal")
			return nil
		}
		info.Class("bare")
	}
	info.Class("host:Include")
	info.NonTrivial = strings.ContainsAny(c.Value, "\"#*@[ \t")
	p := vlib.Project{Root: "root.jst", Files: map[string]string{"root.jst": "JSIGHT 0.3\nINCLUDE " + param + c.Sep + "\n", name: "TYPE @inc\n{}\n"}}
	res := vlib.Run(p)
	if res.Panic != "" {
		return vlib.Failf("panic", "INCLUDE %s panics: %s", param, res.Panic)
	}
	if !res.Accepted {
		return vlib.Failf("value-rejected", "INCLUDE %s of the existing file %q: rejected (%s)", param, name, res.Err.Msg)
	}
	cat, err := vlib.ParseCatalog(res.JSON)
	if err != nil {
		return vlib.Failf("bad-json", "%v", err)
	}
	if types := cat.Obj("userTypes"); types == nil || !types.Has("@inc") {
		return vlib.Failf("value-differs", "INCLUDE %s is accepted but the file %q was not included", param, name)
	}
	return nil
}

func c17Check(c c17Case, info *vlib.Info) *vlib.Failure {
	if c.Host == "Include" {
		return c17Include(c, info)
	}
	value := c17Value(c.Host, c.Value)
	if value == "" {
		info.Class("empty-value")
		return nil
	}
	if c.Host == "Query" && (value == "htmlFormEncoded" || value == "noFormat") {
		return nil // these two words are the Format parameter
	}
	param := value
	if c.Quoted {
		param = c17Quote(value)
		info.Class("quoted")
	} else {
		if !bareLegal(value) {
			info.Class("not-bare-legal")
			return nil
		}
		info.Class("bare")
	}
	info.Class("host:" + c.Host)
	info.NonTrivial = strings.ContainsAny(value, "\\\"#/*@[ \t")
	if c.Host == "Path" || c.Host == "URL" {
		info.NonTrivial = strings.ContainsAny(c.Value, "\\\"#/*@[ \t")
	}
	src, path := c17Doc(c.Host, param+c.Sep, value)
	if c.Sep != "" {
		info.Class("separator-after-parameter")
	}
	res := vlib.Run(vlib.Single(src))
	if res.Panic != "" {
		return vlib.Failf("panic", "%q panics: %s", src, res.Panic)
	}
	if !res.Accepted {
		return vlib.Failf("value-rejected", "%q: rejected (%s)", src, res.Err.Msg)
	}
	cat, err := vlib.ParseCatalog(res.JSON)
	if err != nil {
		return vlib.Failf("bad-json", "%q: %v", src, err)
	}
	got, ok := cat.Str(path...)
	if !ok || got != value {
		return vlib.Failf("value-differs", "%q: %s reads back as %q (present=%v), written %q", src, strings.Join(path, "."), got, ok, value)
	}
	if c.Quoted && bareLegal(value) {
		// the same value bare must mean the same
		src2, _ := c17Doc(c.Host, value, value)
		res2 := vlib.Run(vlib.Single(src2))
		if res2.Accepted != res.Accepted || res2.JSON != res.JSON {
			return vlib.Failf("bare-differs-from-quoted", "%q and %q give different results", src, src2)
		}
	}
	return nil
}

type c17Neg struct {
	Host string `json:"host"`
	Head string `json:"head"` // valid quoted content before the fault
	Kind string `json:"kind"` // "unterminated" | "escape"
	Esc  int    `json:"esc"`  // the byte after the backslash
	Tail string `json:"tail"`
	End  string `json:"end"` // "\n" | "\r\n" | "" (EOF) - for unterminated
}

func c17NegCheck(c c17Neg, info *vlib.Info) *vlib.Failure {
	head := strings.ReplaceAll(strings.ReplaceAll(c.Head, `\`, `\\`), `"`, `\"`)
	var param string
	var faultOff int // offset inside param of the byte that must be reported
	switch c.Kind {
	case "unterminated":
		param = `"` + head
		faultOff = len(param)
		info.Class("neg:unterminated")
	default:
		param = `"` + head + `\` + string([]byte{byte(c.Esc)}) + c.Tail + `"`
		faultOff = 1 + len(head) + 1
		info.Class("neg:escape")
	}
	info.NonTrivial = len(c.Head) > 0
	var src string
	var paramAt int
	switch c.Host {
	case "Title":
		src = "JSIGHT 0.3\nINFO\n  Title "
	case "Path":
		src = "JSIGHT 0.3\nGET "
	case "Method":
		src = "JSIGHT 0.3\nURL /r\n  Protocol json-rpc-2.0\n  Method "
	default:
		src = "JSIGHT 0.3\nSERVER @s\n  BaseUrl "
	}
	paramAt = len(src)
	src += param
	if c.Kind == "unterminated" {
		src += c.End
	} else {
		src += "\n"
	}
	res := vlib.Run(vlib.Single(src))
	if res.Panic != "" {
		return vlib.Failf("panic", "%q panics: %s", src, res.Panic)
	}
	if res.Accepted || res.Err == nil {
		return vlib.Failf("bad-quoting-accepted", "%q is accepted", src)
	}
	if res.Err.Index != paramAt+faultOff {
		return vlib.Failf("bad-quoting-index", "%q: rejected at byte %d (%s), the offending byte is at %d", src, res.Err.Index, res.Err.Msg, paramAt+faultOff)
	}
	return nil
}

func TestC17(t *testing.T) {
	h := vlib.New(t, "C17", "exploration",
		"single-line values over {a, \\, \", space, #, /, *, tab, @, [, ], e-acute} written quoted (escaping \" and \\) in eight hosts (Title, Version, BaseUrl, Query example, method path, URL path, JSON-RPC method name, INCLUDE file name - read back by the included file's content; names with a slash or backslash are C08's) exhaustively to the tier's length, bare where the value is legal bare, the unescape function directly, random valid UTF-8 to 60 runes, and negative cases (unterminated quote, backslash before every other byte); non-trivial = the value holds an escape or one of # / * @ [ space tab; distinct by (host, value, spelling)",
		"paths are generated without braces (path parameters have their own rules, C13)", "invalid UTF-8 belongs to C09")
	h.Require("quoted", "bare", "neg:unterminated", "neg:escape", "host:Title", "host:Version", "host:BaseUrl", "host:Query", "host:Path", "host:URL", "host:Method", "host:Include")
	defer vlib.CleanupScratch()
	hosts := []string{"Title", "Version", "BaseUrl", "Query", "Path", "URL", "Method", "Include"}
	alpha := []string{"a", `\`, `"`, " ", "#", "/", "*", "\t", "@", "[", "]", "é"}

	// the unescape function itself: quoted form of v must come back as v
	vlib.Enum(h, "unescape-hook-exhaustive", true, func(yield func(string) bool) {
		eachString(alpha, h.Pick(5, 6), h.Mine, yield)
	}, func(v string, info *vlib.Info) *vlib.Failure {
		info.NonTrivial = strings.ContainsAny(v, "\\\"")
		info.Class("hook")
		got := directive.VerifUnescapeParameter([]byte(c17Quote(v)))
		if !bytes.Equal(got, []byte(v)) {
			return vlib.Failf("unescape", "unescape(%s) = %q, want %q", c17Quote(v), got, v)
		}
		return nil
	})

	maxLen := h.Pick(3, 4)
	vlib.Enum(h, "hosts-exhaustive", true, func(yield func(c17Case) bool) {
		idx := 0
		eachString(alpha, maxLen, func(int) bool { return true }, func(v string) bool {
			for _, host := range hosts {
				for _, q := range []bool{true, false} {
					seps := []string{""}
					if len(v) <= 2 {
						seps = []string{"", " ", "\t", "\t# c"}
					}
					for _, sep := range seps {
						if h.Mine(idx) {
							if !yield(c17Case{Host: host, Value: v, Quoted: q, Sep: sep}) {
								return false
							}
						}
						idx++
					}
				}
			}
			return true
		})
	}, c17Check)

	vlib.Rapid(h, "hosts-random", h.N(20000, 600000), func(t *rapid.T) c17Case {
		v := rapid.StringOfN(rapid.RuneFrom([]rune("ab\\\"#/*@[] \téЖ日{}()'`~!$%^&=+|;:,.<>?0123-_")), 1, 60, -1).Draw(t, "value")
		host := rapid.SampledFrom(hosts).Draw(t, "host")
		if host == "Path" || host == "URL" {
			v = strings.Map(func(r rune) rune {
				if r == '{' || r == '}' {
					return '_'
				}
				return r
			}, v)
		}
		if !utf8.ValidString(v) {
			v = "a"
		}
		return c17Case{Host: host, Value: v, Quoted: rapid.IntRange(0, 3).Draw(t, "q") > 0,
			Sep: rapid.SampledFrom([]string{"", "", " ", "\t", "\t ", " \t", " # c", "\t# c", "  "}).Draw(t, "sep")}
	}, c17Check)

	vlib.Enum(h, "negative-quoting", true, func(yield func(c17Neg) bool) {
		idx := 0
		heads := []string{"", "a", `a\`, `"`, "a b#", `\\`}
		for _, host := range []string{"Title", "Path", "Method", "BaseUrl"} {
			for _, head := range heads {
				hd := head
				if host == "Path" {
					hd = "/" + head
				}
				for _, end := range []string{"\n", "\r\n", "", "\r"} {
					if h.Mine(idx) && !yield(c17Neg{Host: host, Head: hd, Kind: "unterminated", End: end}) {
						return
					}
					idx++
				}
				for b := 1; b < 256; b++ {
					if b == '\\' || b == '"' || b == '\n' || b == '\r' {
						continue
					}
					for _, tail := range []string{"", "x"} {
						if h.Mine(idx) && !yield(c17Neg{Host: host, Head: hd, Kind: "escape", Esc: b, Tail: tail}) {
							return
						}
						idx++
					}
				}
			}
		}
	}, c17NegCheck)
}
