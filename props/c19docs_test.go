package props

import (
	"strings"

	"pgregory.net/rapid"

	"verif/vlib"
)

func c19DocCheck(c docCase, info *vlib.Info) *vlib.Failure {
	r := vlib.Render(c.Doc, c.Style)
	res := vlib.Run(vlib.Single(r.Text))
	if res.Panic != "" {
		return vlib.Failf("panic: "+res.Panic, "%s\n%s", res.Panic, r.Text)
	}
	if !res.Accepted {
		return vlib.Failf("valid-document-rejected", "rejected: %s (line %d)\n--- source:\n%s", res.Err.Msg, res.Err.Line, r.Text)
	}
	info.Class("accepted")
	ref, err := vlib.RefCatalog(c.Doc)
	if err != nil {
		return vlib.Failf("harness", "%v", err)
	}
	cat, _ := vlib.ParseCatalog(res.JSON)
	var errs []string
	vlib.CompareExpected("$.tags", ref.M.Vals["tags"], cat.Get("tags"), &errs)
	refInter := ref.M.Vals["interactions"].(*vlib.OMap)
	sources := map[string]bool{}
	nInter := 0
	for _, id := range refInter.Keys {
		nInter++
		want := refInter.Vals[id].(vlib.Unordered).M.Vals["tags"]
		got := cat.Get("interactions", id, "tags")
		vlib.CompareExpected("$.interactions."+id+".tags", want, got, &errs)
		if l, ok := got.([]any); !ok || len(l) == 0 {
			errs = append(errs, "interaction "+id+" carries no tag")
		}
	}
	flat, _ := vlib.Inline(c.Doc)
	if flat != nil {
		flat.Walk(func(d, p *vlib.Dir) {
			if vlib.IsVerb(d.Kw) || d.Kw == "Method" {
				switch {
				case d.Child("Tags") != nil:
					sources["method-level"] = true
				case p != nil && p.Child("Tags") != nil:
					sources["url-level"] = true
				default:
					sources["automatic"] = true
				}
				if d.Kw == "Method" {
					sources["json-rpc"] = true
				}
			}
		})
	}
	for s := range sources {
		info.Class("tags:" + s)
	}
	info.NonTrivial = nInter >= 3 && len(sources) >= 2
	info.Sample = map[string]any{"source": r.Text}
	if len(errs) > 0 {
		return vlib.Failf("tag-assignment", "tags do not follow the rule (own Tags, else the URL's Tags, else the automatic tag of the first segment):\n  %s\n--- source:\n%s", strings.Join(errs, "\n  "), r.Text)
	}
	return nil
}

func c19NegCheck(c faultCase, info *vlib.Info) *vlib.Failure {
	if !c.OK || !(strings.HasPrefix(c.Fault.Kind, "undefined-tag") || c.Fault.Kind == "omit-param-Tags") || c.Fault.Route == "in-unused-macro" {
		return nil
	}
	info.Class("neg:" + c.Fault.Kind)
	info.NonTrivial = true
	r := vlib.Render(c.Doc, vlib.Style{})
	res := vlib.Run(vlib.Single(r.Text))
	if res.Panic != "" {
		return vlib.Failf("panic: "+res.Panic, "%s\n%s", res.Panic, r.Text)
	}
	if res.Accepted {
		return vlib.Failf("undeclared-tag-accepted: "+c.Fault.Kind, "a Tags directive naming an undeclared tag (or none) is accepted\n--- source:\n%s", r.Text)
	}
	for _, o := range c.Fault.Offenders {
		sp := r.Spans[o]
		if res.Err.Index >= sp.Begin && res.Err.Index < sp.End {
			return nil
		}
	}
	return vlib.Failf("tag-fault-mislocated", "diagnostic %q at line %d is not at the Tags directive\n--- source:\n%s", res.Err.Msg, res.Err.Line, r.Text)
}

func init() {
	c19Docs = func(h *vlib.H) {
		h.Require("accepted", "tags:method-level", "tags:url-level", "tags:automatic", "tags:json-rpc", "neg:undefined-tag", "neg:undefined-tag-like-auto", "neg:omit-param-Tags", "neg:undefined-tag-second-Tags")
		vlib.Rapid(h, "tag-assignment", h.N(8000, 250000), func(t *rapid.T) docCase {
			doc := vlib.GenDoc(t, vlib.GenOpts{Macros: rapid.Bool().Draw(t, "macros"), TagsHeavy: true})
			return docCase{Doc: doc, Style: genStyle(t, !doc.HasMultilineFreeText())}
		}, c19DocCheck)
		vlib.Rapid(h, "undeclared-tags", h.N(20000, 300000), func(t *rapid.T) faultCase {
			base := vlib.GenDoc(t, vlib.GenOpts{TagsHeavy: true})
			doc, fault, ok := vlib.InjectFault(t, base)
			return faultCase{Doc: doc, Fault: fault, OK: ok}
		}, c19NegCheck)
	}
}
