package props

import (
	"os"
	"os/exec"
	"path/filepath"
	"regexp"
	"strings"
	"syscall"
	"testing"
	"time"

	"github.com/jsightapi/jsight-api-go-library/core"

	"verif/vlib"
)

// badIncludeName is the reference predicate of the property: names that must
// be rejected.
func badIncludeName(name string) bool {
	if strings.HasPrefix(name, "/") || strings.Contains(name, "\\") {
		return true
	}
	for _, c := range strings.Split(name, "/") {
		if c == "." || c == ".." {
			return true
		}
	}
	return false
}

type c08Name struct {
	Name   string `json:"name"`
	Quoted bool   `json:"quoted,omitempty"`
	// Target: "file" (a file with a marker exists where the name points),
	// "absent", "dir", "empty", "dangling" (symlink to nowhere).
	Target string `json:"target"`
}

var c08Seq int

// c08NameCheck runs INCLUDE <name> end to end in a private tree
// base/outer/proj/root.jst with canary files around the project directory.
func c08NameCheck(c c08Name, info *vlib.Info) *vlib.Failure {
	bad := badIncludeName(c.Name)
	info.NonTrivial = strings.Contains(c.Name, ".")
	if bad {
		info.Class("name:bad")
	} else {
		info.Class("name:harmless")
	}
	info.Class("target:" + c.Target)
	c08Seq++
	base := filepath.Join(vlib.ScratchBase(), "c08", itoa(c08Seq))
	proj := filepath.Join(base, "outer", "proj")
	defer os.RemoveAll(base)
	_ = os.MkdirAll(proj, 0o755)
	canary := "TYPE @canary\n{}\n"
	_ = os.WriteFile(filepath.Join(base, "canary.jst"), []byte(canary), 0o644)
	_ = os.WriteFile(filepath.Join(base, "outer", "canary.jst"), []byte(canary), 0o644)
	_ = os.WriteFile(filepath.Join(base, "a"), []byte(canary), 0o644)
	_ = os.WriteFile(filepath.Join(base, "outer", "a"), []byte(canary), 0o644)
	_ = os.WriteFile(filepath.Join(base, "outer", "aa"), []byte(canary), 0o644)

	inside := false
	if c.Name != "" && !strings.HasPrefix(c.Name, "/") {
		target := filepath.Join(proj, c.Name) // cleaned
		rel, err := filepath.Rel(proj, target)
		inside = err == nil && rel != "." && rel != ".." && !strings.HasPrefix(rel, "../")
		if inside || strings.HasPrefix(target, base+string(filepath.Separator)) {
			content := "TYPE @inside\n{}\n"
			if !inside {
				content = canary
			}
			if st, err := os.Stat(target); err != nil || !st.IsDir() {
				_ = os.MkdirAll(filepath.Dir(target), 0o755)
				switch c.Target {
				case "file":
					_ = os.WriteFile(target, []byte(content), 0o644)
				case "empty":
					_ = os.WriteFile(target, nil, 0o644)
				case "dir":
					_ = os.MkdirAll(target, 0o755)
				case "dangling":
					_ = os.Symlink(filepath.Join(base, "nowhere"), target)
				}
			}
		}
	}
	if strings.HasPrefix(c.Name, "/") && !strings.Contains(c.Name, "\\") && c.Target == "file" {
		// an absolute name must not be re-rooted at the including file's directory:
		// plant a file where that mistake would find one
		if target := filepath.Join(proj, c.Name); strings.HasPrefix(target, proj+string(filepath.Separator)) {
			if _, err := os.Stat(target); err != nil {
				_ = os.MkdirAll(filepath.Dir(target), 0o755)
				_ = os.WriteFile(target, []byte("TYPE @inside\n{}\n"), 0o644)
				info.Class("absolute-name-with-rerooted-target")
			}
		}
	}
	param := c.Name
	if c.Quoted {
		param = c17Quote(c.Name)
	}
	root := "JSIGHT 0.3\nINCLUDE " + param + "\n"
	_ = os.WriteFile(filepath.Join(proj, "root.jst"), []byte(root), 0o644)
	res := vlib.RunIn(vlib.Project{Root: "root.jst", Files: map[string]string{"root.jst": root}}, proj)
	if res.Panic != "" {
		return vlib.Failf("panic", "INCLUDE %q panics: %s", param, res.Panic)
	}
	if res.OpenErr != "" {
		return vlib.Failf("harness", "cannot open the root: %s", res.OpenErr)
	}
	if c.Quoted && bareLegal(c.Name) && !strings.Contains(c.Name, "\"") {
		// quoting a name that needs no quotes must not change anything
		root2 := "JSIGHT 0.3\nINCLUDE " + c.Name + "\n"
		_ = os.WriteFile(filepath.Join(proj, "root.jst"), []byte(root2), 0o644)
		res2 := vlib.RunIn(vlib.Project{Root: "root.jst", Files: map[string]string{"root.jst": root2}}, proj)
		_ = os.WriteFile(filepath.Join(proj, "root.jst"), []byte(root), 0o644)
		if res2.Accepted != res.Accepted || res2.JSON != res.JSON {
			return vlib.Failf("quoted-name-differs", "INCLUDE %s and INCLUDE %s give different results (accepted %v / %v)", param, c.Name, res.Accepted, res2.Accepted)
		}
	}
	if res.Accepted {
		if bad {
			return vlib.Failf("bad-name-accepted", "INCLUDE %s is accepted although the name is absolute or has a '.', '..' component or a backslash", param)
		}
		cat, err := vlib.ParseCatalog(res.JSON)
		if err != nil {
			return vlib.Failf("bad-json", "%v", err)
		}
		types := cat.Obj("userTypes")
		if types.Has("@canary") {
			return vlib.Failf("outside-file-read", "INCLUDE %s read a file outside the project directory", param)
		}
		switch c.Target {
		case "file":
			if !inside || types == nil || len(types.Keys) != 1 || !types.Has("@inside") {
				return vlib.Failf("wrong-file-included", "INCLUDE %s accepted but the catalog does not hold exactly the included file's type", param)
			}
		case "empty":
			if types != nil && len(types.Keys) != 0 {
				return vlib.Failf("wrong-file-included", "INCLUDE %s of an empty file yields user types", param)
			}
		default:
			return vlib.Failf("missing-target-accepted", "INCLUDE %s accepted although the target is %s", param, c.Target)
		}
		return nil
	}
	// rejected: a file outside the project directory must not even have been
	// opened. The canary the name points at becomes a FIFO: opening it for
	// reading blocks until the check opens the other end.
	if target := filepath.Join(proj, c.Name); c.Target == "file" && !inside && !strings.HasPrefix(c.Name, "/") &&
		strings.HasPrefix(target, base+string(filepath.Separator)) && !strings.HasPrefix(target, proj+string(filepath.Separator)) && target != proj {
		if st, err := os.Stat(target); err == nil && st.Mode().IsRegular() {
			_ = os.Remove(target)
			if syscall.Mkfifo(target, 0o644) == nil {
				info.Class("outside-target-is-fifo")
				done := make(chan struct{})
				go func() {
					defer close(done)
					vlib.RunIn(vlib.Project{Root: "root.jst", Files: map[string]string{"root.jst": root}}, proj)
				}()
				select {
				case <-done:
				case <-time.After(10 * time.Second):
					// unblock the reader, then report
					if w, err := os.OpenFile(target, os.O_WRONLY|syscall.O_NONBLOCK, 0); err == nil {
						w.Close()
					}
					select {
					case <-done:
					case <-time.After(5 * time.Second):
					}
					return vlib.Failf("outside-file-opened", "INCLUDE %s: the file %s outside the project directory was opened for reading (the name is then rejected)", param, strings.TrimPrefix(target, base))
				}
			}
		}
	}
	// rejected: must be a diagnostic at the INCLUDE line of the root file
	if res.Err == nil {
		return vlib.Failf("no-diagnostic", "INCLUDE %s: neither accepted nor a JApiError", param)
	}
	if !bad && c.Target == "file" && inside && !strings.ContainsAny(c.Name, " \t#\"") {
		info.Class("harmless-name-rejected")
	}
	if res.Err.File != "root.jst" || res.Err.Line != 2 {
		// an error inside the included file would mean it was read
		if bad {
			return vlib.Failf("bad-name-read", "INCLUDE %s: diagnostic %q at %s:%d, not at the INCLUDE", param, res.Err.Msg, res.Err.File, res.Err.Line)
		}
	}
	return nil
}

func eachIncludeName(maxLen int, mine func(int) bool, yield func(c08Name) bool) {
	idx := 0
	emit := func(c c08Name) bool {
		ok := true
		if mine(idx) {
			ok = yield(c)
		}
		idx++
		return ok
	}
	eachString([]string{".", "/", "\\", "a"}, maxLen, func(int) bool { return true }, func(s string) bool {
		if s == "" {
			return true
		}
		if !emit(c08Name{Name: s, Target: "file"}) || !emit(c08Name{Name: s, Target: "file", Quoted: true}) {
			return false
		}
		if len(s) <= 4 {
			for _, tg := range []string{"absent", "dir", "empty", "dangling"} {
				if !emit(c08Name{Name: s, Target: tg}) {
					return false
				}
			}
		}
		// one substituted position
		for i := 0; i < len(s); i++ {
			for _, sub := range []string{"b", " ", "\""} {
				n := s[:i] + sub + s[i+1:]
				if !emit(c08Name{Name: n, Target: "file", Quoted: true}) {
					return false
				}
				if sub == "b" && !emit(c08Name{Name: n, Target: "file"}) {
					return false
				}
			}
		}
		return true
	})
}

func TestC08(t *testing.T) {
	h := vlib.New(t, "C08", "exploration",
		"INCLUDE file names: every string up to the tier's length over {. / \\ a} (plus one position substituted by b, space or a quote; bare and quoted; target present, absent, directory, empty, dangling symlink) run end to end in a private tree with canary files outside the project directory, and every such string up to a larger bound against the name validator directly; generated documents cut into files in all the ways the property lists, compared with the unsplit document; negative include graphs; non-trivial = name holds a '.', or the split has an include at depth >= 2 or >= 2 includes; distinct by name / project hash",
		"reading outside the project directory is observed through canary files, and an open that is followed by a rejection through a FIFO in the canary's place (quick and thorough) and through strace (thorough)", "checks run as root: an unreadable target cannot be produced")
	defer vlib.CleanupScratch()
	h.Require("outside-target-is-fifo", "absolute-name-with-rerooted-target", "name:bad", "name:harmless", "target:file", "target:absent", "target:dir", "target:empty", "target:dangling")

	vlib.Enum(h, "names-end-to-end-exhaustive", true, func(yield func(c08Name) bool) {
		eachIncludeName(h.Pick(5, 7), h.Mine, yield)
	}, c08NameCheck)

	vlib.Enum(h, "name-validator-exhaustive", true, func(yield func(string) bool) {
		eachString([]string{".", "/", "\\", "a"}, h.Pick(9, 11), h.Mine, func(s string) bool {
			if s == "" {
				return true
			}
			return yield(s)
		})
	}, func(name string, info *vlib.Info) *vlib.Failure {
		info.NonTrivial = strings.Contains(name, ".")
		bad := badIncludeName(name)
		err := core.VerifValidateIncludeFileName(name)
		if bad {
			info.Class("validator:bad")
		} else {
			info.Class("validator:harmless")
		}
		if bad && err == nil && name != "." && name != ".." {
			// "." and ".." alone pass the validator and are refused as directories
			// (covered end to end)
			return vlib.Failf("validator-accepts-bad-name", "the name validator accepts %q", name)
		}
		return nil
	})

	c08Strace(h)
	c08Docs(h)
}

// ---- strace arm (thorough tier): no file outside the project directory is opened ----

// TestC08StraceChild is run by the strace arm under strace: it replays the
// end-to-end name enumeration (without oracle) in the directory named by
// VERIF_C08_STRACE_BASE.
func TestC08StraceChild(t *testing.T) {
	base := os.Getenv("VERIF_C08_STRACE_BASE")
	if base == "" {
		t.Skip("helper of the strace arm")
	}
	os.Setenv("VERIF_SCRATCH", base)
	n := 0
	eachIncludeName(4, func(int) bool { return true }, func(c c08Name) bool {
		info := &vlib.Info{}
		c08NameCheck(c, info)
		n++
		return true
	})
	t.Logf("ran %d names", n)
}

var straceCaseDirRe = regexp.MustCompile(`/c08/\d+/`)
var straceOpenRe = regexp.MustCompile(`openat\(AT_FDCWD, "([^"]+)", ([A-Z_|]+)`)

// c08Strace runs the child under strace and checks every read-only open of a
// path below the scratch base: it must lie inside a project directory
// (.../outer/proj/...).
func c08Strace(h *vlib.H) {
	if !h.Thorough() || h.Shard != 0 {
		return
	}
	type straceCase struct{ Note string }
	h.SlowCampaign("names-under-strace")
	vlib.Enum(h, "names-under-strace", false, func(yield func(straceCase) bool) { yield(straceCase{"all names up to length 4 under strace -e trace=openat"}) },
		func(c straceCase, info *vlib.Info) *vlib.Failure {
			info.NonTrivial = true
			info.Class("strace-arm")
			base, err := os.MkdirTemp(vlib.ScratchBase(), "strace")
			if err != nil {
				return nil
			}
			defer os.RemoveAll(base)
			logf := filepath.Join(base, "strace.log")
			cmd := exec.Command("strace", "-f", "-e", "trace=openat", "-o", logf, os.Args[0], "-test.run", "^TestC08StraceChild$")
			cmd.Env = append(os.Environ(), "VERIF_C08_STRACE_BASE="+base, "VERIF_OUT=", "VERIF_JOURNAL=", "VERIF_REPLAY=")
			if out, err := cmd.CombinedOutput(); err != nil {
				h.Note("strace arm could not run (%v): %s", err, trunc(string(out), 200))
				info.Class("strace-unavailable")
				return nil
			}
			b, _ := os.ReadFile(logf)
			opens, inside := 0, 0
			for _, m := range straceOpenRe.FindAllStringSubmatch(string(b), -1) {
				path, flags := m[1], m[2]
				if !strings.HasPrefix(path, base+"/") || strings.Contains(flags, "O_WRONLY") || strings.Contains(flags, "O_RDWR") || strings.Contains(flags, "O_CREAT") || strings.Contains(flags, "O_DIRECTORY") {
					continue
				}
				if path == logf || !straceCaseDirRe.MatchString(path) {
					continue // not inside a case directory (the harness lists the scratch directory itself)
				}
				opens++
				if strings.Contains(path, "/outer/proj/") {
					inside++
					continue
				}
				return vlib.Failf("outside-file-opened", "a file outside the project directory was opened for reading: %s", strings.TrimPrefix(path, base))
			}
			info.Sample = map[string]any{"read_only_opens_below_scratch": opens, "inside_project_dirs": inside}
			if opens == 0 {
				h.Note("strace arm saw no opens (strace output format?)")
				info.Class("strace-unavailable")
			}
			return nil
		})
}
