package props

import (
	"sort"
	"strings"
	"testing"

	"pgregory.net/rapid"

	"verif/vlib"
)

const keyF16 = "usedUserTypes-transitive-allOf-base"

// transitiveBaseNames: names that may come and go in usedUserTypes lists
// (known finding F16): every allOf base named anywhere inside a type that is
// itself used as a base.
func transitiveBaseNames(doc *vlib.Doc) map[string]bool {
	objs := map[string]*vlib.Obj{}
	isBase := map[string]bool{}
	var markBases func(o *vlib.Obj)
	markBases = func(o *vlib.Obj) {
		for _, b := range o.AllOf {
			isBase[b] = true
		}
		for _, p := range o.Props {
			if p.V.Obj != nil {
				markBases(p.V.Obj)
			}
		}
	}
	doc.Flat().Walk(func(d, _ *vlib.Dir) {
		if d.Schema != nil && d.Schema.Obj != nil {
			if d.Kw == "TYPE" && len(d.Params) > 0 {
				objs[d.Params[0]] = d.Schema.Obj
			}
			markBases(d.Schema.Obj)
		}
	})
	out := map[string]bool{}
	var inside func(o *vlib.Obj)
	inside = func(o *vlib.Obj) {
		for _, b := range o.AllOf {
			out[b] = true
		}
		for _, p := range o.Props {
			if p.V.Obj != nil {
				inside(p.V.Obj)
			}
		}
	}
	for n := range isBase {
		if o := objs[n]; o != nil {
			inside(o)
		}
	}
	return out
}

// normTagLists sorts the interaction lists inside tag groups (their order
// legitimately follows the global interaction order).
func normTagLists(cat *vlib.OMap) {
	tags := cat.Obj("tags")
	if tags == nil {
		return
	}
	for _, tn := range tags.Keys {
		t, _ := tags.Vals[tn].(*vlib.OMap)
		gs, _ := t.Get("interactionGroups").([]any)
		for _, g := range gs {
			gm, _ := g.(*vlib.OMap)
			if ids, ok := gm.Get("interactions").([]any); ok {
				sort.Slice(ids, func(i, j int) bool { return ids[i].(string) < ids[j].(string) })
			}
		}
	}
}

func dropTransitive(v any, drop map[string]bool) {
	switch x := v.(type) {
	case *vlib.OMap:
		for _, k := range x.Keys {
			if k == "usedUserTypes" {
				if l, ok := x.Vals[k].([]any); ok {
					var keep []string
					for _, e := range l {
						if s, _ := e.(string); !drop[s] {
							keep = append(keep, s)
						}
					}
					sort.Strings(keep)
					nl := make([]any, len(keep))
					for i, s := range keep {
						nl[i] = s
					}
					x.Vals[k] = nl
					continue
				}
			}
			dropTransitive(x.Vals[k], drop)
		}
	case []any:
		for _, e := range x {
			dropTransitive(e, drop)
		}
	}
}

var catalogCollections = []string{"tags", "servers", "userTypes", "userEnums", "interactions"}

// entriesEqual compares two catalogs entry by entry, ignoring the order of
// the entries; it returns "" or (key, detail) of the first difference class.
func entriesEqual(doc *vlib.Doc, ja, jb string) (key, detail string) {
	a, e1 := vlib.ParseCatalog(ja)
	b, e2 := vlib.ParseCatalog(jb)
	if e1 != nil || e2 != nil {
		return "undecodable", "catalog does not decode"
	}
	normTagLists(a)
	normTagLists(b)
	regexRef := vlib.RegexTypeReferenced(doc)
	tb := transitiveBaseNames(doc)
	worst := ""
	for _, top := range a.Keys {
		isColl := false
		for _, c := range catalogCollections {
			if c == top {
				isColl = true
			}
		}
		if !isColl {
			if vlib.Canon(a.Vals[top]) != vlib.Canon(b.Vals[top]) {
				return "differs", "$." + top + " differs"
			}
			continue
		}
		ca, cb := a.Obj(top), b.Obj(top)
		if cb == nil {
			return "differs", "$." + top + " missing"
		}
		ka, kb := append([]string{}, ca.Keys...), append([]string{}, cb.Keys...)
		sort.Strings(ka)
		sort.Strings(kb)
		if strings.Join(ka, "\x00") != strings.Join(kb, "\x00") {
			return "differs", "$." + top + ": key sets differ: " + strings.Join(ca.Keys, ",") + " vs " + strings.Join(cb.Keys, ",")
		}
		for _, k := range ca.Keys {
			x, y := vlib.Canon(ca.Vals[k]), vlib.Canon(cb.Vals[k])
			if x == y {
				continue
			}
			where := "$." + top + "." + k + ": " + diffVal("", ca.Vals[k], cb.Vals[k])
			if regexRef && vlib.MaskExamples(x) == vlib.MaskExamples(y) {
				if worst == "" {
					worst, detail = vlib.KeyRegexExample, where
				}
				continue
			}
			// F16: usedUserTypes differing only by transitive allOf bases
			xa, _ := vlib.DecodeOrdered([]byte(vlib.MaskExamples(x)))
			ya, _ := vlib.DecodeOrdered([]byte(vlib.MaskExamples(y)))
			if !regexRef {
				xa, _ = vlib.DecodeOrdered([]byte(x))
				ya, _ = vlib.DecodeOrdered([]byte(y))
			}
			dropTransitive(xa, tb)
			dropTransitive(ya, tb)
			if len(tb) > 0 && vlib.Canon(xa) == vlib.Canon(ya) {
				worst, detail = keyF16, where
				continue
			}
			return "differs", where
		}
	}
	for _, top := range b.Keys {
		if _, ok := a.Vals[top]; !ok {
			return "differs", "$." + top + " only in the second catalog"
		}
	}
	return worst, detail
}

// expectedOrders: the key order of each collection for a document, from the
// reference catalog.
func expectedOrders(doc *vlib.Doc) map[string][]string {
	ref, err := vlib.RefCatalog(doc)
	if err != nil {
		return nil
	}
	out := map[string][]string{}
	for _, c := range catalogCollections {
		if o, ok := ref.M.Vals[c].(*vlib.OMap); ok {
			out[c] = o.Keys
		}
	}
	return out
}

type c10Case struct {
	Doc   *vlib.Doc `json:"doc"`
	Perms [][]int   `json:"perms"`
}

func c10Check(c c10Case, info *vlib.Info) *vlib.Failure {
	doc := c.Doc
	_, units := doc.Blocks()
	src := vlib.Render(doc, vlib.Style{}).Text
	base := vlib.Run(vlib.Single(src))
	if base.Panic != "" {
		return vlib.Failf("panic: "+base.Panic, "%s\n%s", base.Panic, src)
	}
	crossRef := false
	doc.Walk(func(d, _ *vlib.Dir) {
		if d.Kw == "PASTE" || d.Kw == "Tags" {
			crossRef = true
		}
		if s := d.Schema; s != nil && (s.Ref != "" || (s.Obj != nil && (len(s.Obj.AllOf) > 0))) {
			crossRef = true
		}
	})
	info.NonTrivial = len(units) >= 3 && crossRef && len(c.Perms) >= 2
	if base.Accepted {
		info.Class("accepted")
	} else {
		info.Class("rejected")
	}
	if len(transitiveBaseNames(doc)) > 0 {
		info.Class("allOf-chain>=2")
	}
	info.Sample = map[string]any{"source": src, "permutations": len(c.Perms)}
	var known *vlib.Failure
	for _, perm := range c.Perms {
		pd := doc.Permuted(perm)
		if p := pd.ResolveCheck(); p != "" {
			info.Class("permutation-ineligible")
			continue
		}
		src2 := vlib.Render(pd, vlib.Style{}).Text
		res := vlib.Run(vlib.Single(src2))
		if res.Panic != "" {
			return vlib.Failf("panic: "+res.Panic, "%s\n--- permuted:\n%s", res.Panic, src2)
		}
		if res.Accepted != base.Accepted {
			msg := ""
			if base.Err != nil {
				msg = "original rejected: " + base.Err.Msg
			}
			if res.Err != nil {
				msg = "permuted rejected: " + res.Err.Msg
			}
			return vlib.Failf("permute: verdict-differs", "reordering the top-level declarations changes the verdict; %s\n--- original:\n%s\n--- permuted:\n%s", msg, src, src2)
		}
		if !base.Accepted {
			continue
		}
		key, detail := entriesEqual(doc, base.JSON, res.JSON)
		switch key {
		case "":
		case vlib.KeyRegexExample, keyF16:
			known = vlib.Failf(key, "entries differ only in the known way at %s\n--- original:\n%s\n--- permuted:\n%s", detail, src, src2)
		default:
			return vlib.Failf("permute: entry-differs", "reordering the top-level declarations changes the content of an entry: %s\n--- original:\n%s\n--- permuted:\n%s", detail, src, src2)
		}
		// key order = source order of the permuted document
		cat, _ := vlib.ParseCatalog(res.JSON)
		for coll, want := range expectedOrders(pd) {
			got := []string{}
			if o := cat.Obj(coll); o != nil {
				got = o.Keys
			}
			if strings.Join(got, "\x00") != strings.Join(want, "\x00") {
				return vlib.Failf("permute: order", "after reordering, %s is in the order %q; the source order is %q\n--- permuted:\n%s", coll, got, want, src2)
			}
		}
	}
	return known
}

func genPerms(t *rapid.T, n, max int) [][]int {
	var perms [][]int
	fact := 1
	for i := 2; i <= n; i++ {
		fact *= i
		if fact > max {
			break
		}
	}
	if fact <= max {
		vlib.AllPermutations(n, func(p []int) bool { perms = append(perms, p); return true })
		return perms
	}
	for i := 0; i < max; i++ {
		perms = append(perms, rapid.Permutation(seq(0, n-1)).Draw(t, "perm"))
	}
	return perms
}

func TestC10(t *testing.T) {
	h := vlib.New(t, "C10", "exploration",
		"generated documents (reference chains between types, enums used inside referenced types, allOf chains and several bases, tags and macros used before definition, servers, URL and method blocks) x permutations of their top-level units (all n! when that is <= the tier's bound, else sampled; a URL stays with the hoisted methods that follow it; top-level PASTEs stay in the header); oracle: same verdict, every entry identical (tag-group lists compared as sets), key order = source order of the permuted document; non-trivial = >= 3 units, >= 1 cross-unit reference, >= 2 permutations; distinct by (document, permutation set)",
		"top-level PASTE is not a reorderable declaration (its meaning depends on the block before it)")
	h.Require("accepted", "allOf-chain>=2")
	maxPerms := h.Pick(24, 120)
	vlib.Rapid(h, "permutations", h.N(1500, 25000), func(t *rapid.T) c10Case {
		doc := vlib.GenDoc(t, vlib.GenOpts{Macros: rapid.Bool().Draw(t, "macros"), Inheritance: rapid.Bool().Draw(t, "inheritance")})
		_, units := doc.Blocks()
		return c10Case{Doc: doc, Perms: genPerms(t, len(units), maxPerms)}
	}, c10Check)
	vlib.Rapid(h, "permutations-faulty-docs", h.N(400, 15000), func(t *rapid.T) c10Case {
		doc := injectAnyFault(t, vlib.GenDoc(t, vlib.GenOpts{Macros: rapid.Bool().Draw(t, "macros"), Inheritance: rapid.Bool().Draw(t, "inheritance")}))
		_, units := doc.Blocks()
		return c10Case{Doc: doc, Perms: genPerms(t, len(units), 6)}
	}, c10Check)
}
