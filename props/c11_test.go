package props

import (
	"strings"
	"testing"

	"pgregory.net/rapid"

	"verif/vlib"
)

type faultCase struct {
	// Base: the valid document the fault was injected into.
	Base  *vlib.Doc  `json:"base,omitempty"`
	Doc   *vlib.Doc  `json:"doc"`
	Fault vlib.Fault `json:"fault"`
	OK    bool       `json:"ok"`
}

func genFaultCase(t *rapid.T) faultCase {
	base := vlib.GenDoc(t, vlib.GenOpts{Macros: rapid.Bool().Draw(t, "macros")})
	doc, fault, ok := vlib.InjectFault(t, base)
	return faultCase{Base: base, Doc: doc, Fault: fault, OK: ok}
}

// c11Revalidate: the fault arrives through INCLUDE as an edit. The valid
// document's directives live in an included file; the project is validated,
// the included file is overwritten in place with the faulty version and the
// project is validated again (same path, same process), then the edit is
// undone.
func c11Revalidate(c faultCase, info *vlib.Info) *vlib.Failure {
	if !c.OK || c.Base == nil || c.Fault.Route == "in-unused-macro" || c.Fault.Kind == "omit-param-JSIGHT" ||
		len(c.Base.Top) < 2 || c.Base.Top[0].Kw != "JSIGHT" || len(c.Doc.Top) < 2 || c.Doc.Top[0].Kw != "JSIGHT" {
		info.Class("ineligible")
		return nil
	}
	valid := vlib.RenderDirs(c.Base.Top[1:], 0, vlib.Style{}, "inc.jst").Text
	faulty := vlib.RenderDirs(c.Doc.Top[1:], 0, vlib.Style{}, "inc.jst").Text
	p := vlib.Project{Root: "root.jst", Files: map[string]string{"root.jst": "JSIGHT 0.3\nINCLUDE inc.jst\n", "inc.jst": valid}}
	dir := vlib.Materialise(p)
	defer removeAll(dir)
	info.Sample = map[string]any{"fault": c.Fault, "valid": valid, "faulty": faulty}
	if r := vlib.RunIn(p, dir); !r.Accepted {
		info.Class("valid-form-not-accepted-when-included")
		return nil
	}
	info.NonTrivial = true
	info.Class("edit-through-include")
	info.Class("fault:" + c.Fault.Kind)
	p.Files["inc.jst"] = faulty
	vlib.MaterialiseIn(p, dir)
	r2 := vlib.RunIn(p, dir)
	if r2.Panic != "" {
		return nil // C01
	}
	if r2.Accepted {
		return vlib.Failf("fault-accepted-after-edit: "+c.Fault.Kind, "the included file was overwritten with a version holding the fault %q and the project is still accepted\n--- included file now:\n%s", c.Fault.Kind, faulty)
	}
	if r2.Err.File != "inc.jst" {
		return vlib.Failf("fault-located-elsewhere", "diagnostic %q for a fault in the included file is located in %q", r2.Err.Msg, r2.Err.File)
	}
	p.Files["inc.jst"] = valid
	vlib.MaterialiseIn(p, dir)
	if r3 := vlib.RunIn(p, dir); !r3.Accepted {
		return vlib.Failf("valid-rejected-after-edit", "after the fault %q was removed from the included file again the project is still rejected (%s)\n--- included file now:\n%s", c.Fault.Kind, r3.Err.Msg, valid)
	}
	return nil
}

func init() {
	injectAnyFault = func(t *rapid.T, doc *vlib.Doc) *vlib.Doc {
		d2, _, ok := vlib.InjectFault(t, doc)
		if !ok {
			return doc
		}
		return d2
	}
	genAnyDocProjectImpl = func(t *rapid.T) vlib.Project {
		doc := vlib.GenDoc(t, vlib.GenOpts{Macros: rapid.Bool().Draw(t, "macros")})
		switch rapid.IntRange(0, 3).Draw(t, "faulty") {
		case 1:
			doc = injectAnyFault(t, doc)
		case 2:
			if d2, _, ok := vlib.InjectSchemaConfusion(t, doc); ok {
				doc = d2
			}
		case 3:
			if d2, ok := vlib.InjectBodyFault(t, doc); ok {
				doc = d2
			}
		}
		st := genStyle(t, !doc.HasMultilineFreeText())
		return vlib.Single(vlib.Render(doc, st).Text)
	}
}

// referencedNames: names used by PASTE, Tags and schema references.
func referencedNames(doc *vlib.Doc) map[string]bool {
	out := map[string]bool{}
	var inObj func(o *vlib.Obj)
	inObj = func(o *vlib.Obj) {
		for _, b := range o.AllOf {
			out[b] = true
		}
		for _, p := range o.Props {
			if p.KeyRef {
				out[p.Key] = true
			}
			out[p.V.Ref], out[p.V.Ref2], out[p.V.Enum] = true, true, true
			if p.V.Obj != nil {
				inObj(p.V.Obj)
			}
		}
	}
	doc.Walk(func(d, _ *vlib.Dir) {
		if d.Kw == "PASTE" || d.Kw == "Tags" {
			for _, p := range d.Params {
				out[p] = true
			}
		}
		if s := d.Schema; s != nil {
			out[s.Ref], out[s.Ref2] = true, true
			if s.Obj != nil {
				inObj(s.Obj)
			}
		}
	})
	return out
}

func c11Check(c faultCase, info *vlib.Info) *vlib.Failure {
	if !c.OK {
		info.Class("ineligible")
		return nil
	}
	info.Class("fault:" + c.Fault.Kind)
	info.Class("route:" + c.Fault.Route)
	r := vlib.Render(c.Doc, vlib.Style{})
	n := len(c.Doc.Top)
	firstBlock := false
	if len(c.Doc.Top) > 1 {
		for _, o := range c.Fault.Offenders {
			if o == c.Doc.Top[1].ID {
				firstBlock = true
			}
		}
	}
	info.NonTrivial = n >= 4 && !firstBlock
	info.Fingerprint = vlib.Hash64(r.Text)
	info.Sample = map[string]any{"fault": c.Fault, "source": r.Text}
	res := vlib.Run(vlib.Single(r.Text))
	if res.Panic != "" {
		return vlib.Failf("panic: "+res.Panic, "%s\n--- fault: %+v\n--- source:\n%s", res.Panic, c.Fault, r.Text)
	}
	if c.Fault.Route == "in-unused-macro" {
		// a macro that is never pasted contributes nothing (C07): a fault inside
		// it need not be noticed
		info.NonTrivial = false
		return nil
	}
	if res.Accepted {
		return vlib.Failf("fault-accepted: "+c.Fault.Kind, "a document with the fault %q (offending directives %v) is accepted\n--- source:\n%s", c.Fault.Kind, c.Fault.Offenders, r.Text)
	}
	if res.Err.File != "root.jst" {
		return vlib.Failf("fault-located-elsewhere", "diagnostic %q is not located in the document's file (%q)", res.Err.Msg, res.Err.AbsFile)
	}
	// location: inside the span of an offending directive (or of a PASTE that
	// brings it in)
	var spans []vlib.Span
	offMacros := map[string]bool{}
	for _, o := range c.Fault.Offenders {
		if sp, ok := r.Spans[o]; ok {
			spans = append(spans, sp)
		}
	}
	c.Doc.Walk(func(d, p *vlib.Dir) {
		if d.Kw != "MACRO" || len(d.Params) == 0 {
			return
		}
		msp := r.Spans[d.ID]
		for _, sp := range spans {
			if sp.Begin >= msp.Begin && sp.End <= msp.End {
				offMacros[d.Params[0]] = true
			}
		}
	})
	// a macro that pastes an offending macro brings the fault in as well
	for changed := true; changed; {
		changed = false
		c.Doc.Walk(func(d, _ *vlib.Dir) {
			if d.Kw == "MACRO" && len(d.Params) > 0 && !offMacros[d.Params[0]] {
				hit := false
				var rec func(x *vlib.Dir)
				rec = func(x *vlib.Dir) {
					if x.Kw == "PASTE" && len(x.Params) > 0 && offMacros[x.Params[0]] {
						hit = true
					}
					for _, ch := range x.Children {
						rec(ch)
					}
				}
				rec(d)
				if hit {
					offMacros[d.Params[0]] = true
					changed = true
				}
			}
		})
	}
	c.Doc.Walk(func(d, _ *vlib.Dir) {
		if d.Kw == "PASTE" && len(d.Params) > 0 && offMacros[d.Params[0]] {
			spans = append(spans, r.Spans[d.ID])
		}
	})
	spans = append(spans, pastedBodySpans(c.Doc, r, c.Fault.Offenders)...)
	if strings.HasPrefix(c.Fault.Kind, "omit-param-") {
		switch strings.TrimPrefix(c.Fault.Kind, "omit-param-") {
		case "TYPE", "ENUM", "TAG", "MACRO", "SERVER":
			// the nameless declaration may have been referenced: a diagnostic at
			// the now dangling reference is legitimate too
			info.Class("location-not-checked")
			return nil
		}
	}
	for _, sp := range spans {
		if res.Err.Index >= sp.Begin && res.Err.Index < sp.End {
			return nil
		}
	}
	return vlib.Failf("fault-mislocated: "+c.Fault.Kind, "fault %q: the diagnostic %q points at byte %d (line %d), outside the offending directives' spans %v\n--- source:\n%s", c.Fault.Kind, res.Err.Msg, res.Err.Index, res.Err.Line, spans, r.Text)
}

func TestC11(t *testing.T) {
	h := vlib.New(t, "C11", "fault_enumeration",
		"valid generated documents x one injected fault of every kind the property lists (duplicate type / enum / macro / server / tag, same method+path twice, same URL path twice, similar paths, second singleton child of each kind, omitted required parameter of each directive, undefined type / enum / macro / tag reference in each syntactic position) x site, directly, inside pasted and unused macros, inside parenthesised blocks, on hoisted methods; and as an edit through INCLUDE (the document's directives in an included file that is validated, overwritten in place with the faulty version, validated again, restored and validated again - same path, same process); oracle: rejected, diagnostic in the file and inside the span of an offending directive; non-trivial = document has >= 3 blocks and the fault is not in the first block; distinct by rendered text",
		"for an omitted name of a TYPE/ENUM/TAG/MACRO/SERVER only rejection is required (a diagnostic at a now-dangling reference is legitimate)")
	defer vlib.CleanupScratch()
	req := []string{"route:direct", "route:in-pasted-macro", "route:in-parenthesised", "edit-through-include"}
	for _, k := range vlib.FaultKinds {
		req = append(req, "fault:"+k)
	}
	h.Require(req...)
	runRegression(h, c11Regression)
	vlib.Rapid(h, "injected-faults", h.N(30000, 1000000), genFaultCase, c11Check)
	vlib.Rapid(h, "faults-edited-into-included-file", h.N(3000, 100000), genFaultCase, c11Revalidate)
}
