package props

import (
	"fmt"
	"strings"
	"testing"

	"pgregory.net/rapid"

	"verif/vlib"
)

func c09Project(p vlib.Project, info *vlib.Info, expectEntries func(cat *vlib.OMap) string) *vlib.Failure {
	res := vlib.Run(p)
	if res.Panic != "" || !res.Accepted {
		info.Class("not-accepted")
		return nil // C01 / C04 territory
	}
	info.Class("accepted")
	src := p.Files[p.Root]
	if len(src) > 1500 {
		src = src[:1500] + "..."
	}
	info.Sample = map[string]any{"source": src}
	info.Fingerprint = vlib.Hash64(res.JSON)
	cat, _ := vlib.ParseCatalog(res.JSON)
	if cat != nil {
		n := 0
		if i := cat.Obj("interactions"); i != nil {
			n += len(i.Keys) * 2
		}
		for _, k := range []string{"userTypes", "userEnums", "servers"} {
			if o := cat.Obj(k); o != nil {
				n += len(o.Keys)
			}
		}
		info.NonTrivial = n >= 2
	}
	if problems := vlib.Consistency(res); len(problems) > 0 {
		key := problems[0]
		if i := strings.Index(key, ":"); i > 0 {
			key = key[:i]
		}
		return vlib.Failf("inconsistent: "+key, "accepted, but the serialised catalog is not self-consistent:\n  %s\n--- source:\n%s", strings.Join(problems, "\n  "), src)
	}
	if expectEntries != nil && cat != nil {
		if d := expectEntries(cat); d != "" {
			return vlib.Failf("entry-count", "%s\n--- source:\n%s", d, src)
		}
	}
	return nil
}

func c09Single(src string, info *vlib.Info) *vlib.Failure {
	return c09Project(vlib.Single(src), info, nil)
}

// genStressNames draws a document whose names, paths, method names, titles
// and annotations stress the serialiser: spaces, quotes, backslashes, <>&,
// non-ASCII, invalid UTF-8, and pairs of interactions whose keys could collide.
func genStressNames(t *rapid.T) string {
	pieces := []string{"a", "b", " ", "\"", "\\", "<", ">", "&", "é", "日", "\xff", "\xfe", "\xc3", "/", "c", "%", "_", "."}
	word := func(label string, min int) string {
		n := rapid.IntRange(min, 4).Draw(t, label+"n")
		var sb strings.Builder
		for i := 0; i < n; i++ {
			sb.WriteString(rapid.SampledFrom(pieces).Draw(t, label))
		}
		return sb.String()
	}
	q := vlib.QuoteParam
	var sb strings.Builder
	sb.WriteString("JSIGHT 0.3\n")
	if rapid.Bool().Draw(t, "info") {
		sb.WriteString("INFO\n  Title " + q(word("title", 1)) + "\n")
	}
	nres := rapid.IntRange(1, 4).Draw(t, "nres")
	for i := 0; i < nres; i++ {
		switch rapid.IntRange(0, 2).Draw(t, "kind") {
		case 0:
			sb.WriteString("GET " + q("/"+word("path", 0)) + " // " + strings.Map(noNL, word("ann", 0)) + "\n  200 any\n")
		case 1:
			sb.WriteString("URL " + q("/"+word("path", 0)) + "\n  POST\n    200 any\n")
		default:
			sb.WriteString("URL " + q("/"+word("rpath", 0)) + "\n  Protocol json-rpc-2.0\n")
			nm := rapid.IntRange(1, 2).Draw(t, "nm")
			for j := 0; j < nm; j++ {
				sb.WriteString("  Method " + q(word("method", 1)) + "\n    Params\n    {}\n")
			}
		}
	}
	return sb.String()
}

func noNL(r rune) rune {
	if r == '\n' || r == '\r' || r == '#' {
		return -1
	}
	return r
}

// collisionPairs: interactions that differ but whose textual keys coincide.
func collisionPairs() []string {
	return []string{
		"JSIGHT 0.3\nURL /c\n  Protocol json-rpc-2.0\n  Method \"a /b\"\n    Params\n    {}\nURL \"/b /c\"\n  Protocol json-rpc-2.0\n  Method a\n    Params\n    {}\n",
		"JSIGHT 0.3\nGET \"/a\xff\"\n  200 any\nGET \"/a\xfe\"\n  200 any\n",
		"JSIGHT 0.3\nGET \"/a b\"\n  200 any\nURL \"/a\"\n  GET\n    200 any\n",
		"JSIGHT 0.3\nTAG @a\nGET /a\n  200 any\n",
		"JSIGHT 0.3\nTAG @_\nGET /\n  200 any\n",
		"JSIGHT 0.3\nGET /_\n  200 any\nGET /%\n  200 any\nGET /__\n  200 any\nGET /_25\n  200 any\n",
	}
}

func TestC09(t *testing.T) {
	h := vlib.New(t, "C09", "exploration",
		"accepted projects reached by token-sequence enumeration, token soups, fixture mutation, the fixtures themselves, generated model documents in random styles, and a generator stressing names / paths / method names / titles with spaces, quotes, backslashes, <>&, non-ASCII and invalid UTF-8 plus hand-made key-collision pairs; oracle: the consistency relation of the property over ToJson / ToJsonIndent / Title; non-trivial = accepted with >= 1 interaction or >= 2 named declarations; distinct by JSON hash",
		"entry counts are compared with the model only for model-generated documents")
	defer vlib.CleanupScratch()
	h.Require("accepted")
	// failing inputs of the native fuzz arm (thorough tier, driver-run) replay through this campaign
	vlib.Enum(h, "native-fuzz", false, func(func(string) bool) {}, c09Single)

	runRegression(h, c09Regression)
	vlib.Enum(h, "fixtures", false, func(yield func(string) bool) {
		for i, c := range vlib.Corpus() {
			if h.Mine(i) && !yield(c.Content) {
				return
			}
		}
	}, c09Single)
	vlib.Enum(h, "collision-pairs", false, func(yield func(string) bool) {
		for i, s := range collisionPairs() {
			if h.Mine(i) && !yield(s) {
				return
			}
		}
	}, c09Single)
	vlib.Enum(h, "tokenseq-exhaustive", true, func(yield func(string) bool) {
		eachTokenSeqJoin(vlib.Prefixes, vlib.Sigma, 2, " ", h.Mine, yield)
	}, c09Single)
	vlib.Rapid(h, "stress-names", h.N(20000, 1000000), genStressNames, c09Single)
	vlib.Rapid(h, "schema-rule-soup", h.N(8000, 300000), vlib.GenRuleSoup, c09Single)
	vlib.Rapid(h, "fixture-mutation", h.N(20000, 1000000), vlib.GenMutation, c09Single)
	vlib.Rapid(h, "token-soup", h.N(10000, 500000), func(t *rapid.T) string {
		return rapid.SampledFrom(vlib.Prefixes).Draw(t, "prefix") + vlib.GenTokenSoup(t, 14)
	}, c09Single)
	vlib.Rapid(h, "model-docs-with-faults", h.N(8000, 300000), func(t *rapid.T) docCase {
		doc := vlib.GenDoc(t, vlib.GenOpts{Macros: rapid.Bool().Draw(t, "macros")})
		if rapid.Bool().Draw(t, "bodyFault") {
			if d2, ok := vlib.InjectBodyFault(t, doc); ok {
				doc = d2
			}
		} else {
			doc = injectAnyFault(t, doc)
		}
		return docCase{Doc: doc}
	}, func(c docCase, info *vlib.Info) *vlib.Failure {
		return c09Project(vlib.Single(vlib.Render(c.Doc, c.Style).Text), info, nil)
	})
	vlib.Rapid(h, "model-docs", h.N(8000, 400000), func(t *rapid.T) docCase {
		doc := vlib.GenDoc(t, vlib.GenOpts{Macros: rapid.Bool().Draw(t, "macros"), TopPasteAnywhere: true})
		return docCase{Doc: doc, Style: genStyle(t, !doc.HasMultilineFreeText())}
	}, func(c docCase, info *vlib.Info) *vlib.Failure {
		r := vlib.Render(c.Doc, c.Style)
		return c09Project(vlib.Single(r.Text), info, func(cat *vlib.OMap) string {
			inl, prob := vlib.Inline(c.Doc)
			if prob != "" {
				return ""
			}
			want := map[string]int{}
			inl.Walk(func(d, _ *vlib.Dir) {
				switch {
				case d.Kw == "TYPE":
					want["userTypes"]++
				case d.Kw == "ENUM":
					want["userEnums"]++
				case d.Kw == "SERVER":
					want["servers"]++
				case vlib.IsVerb(d.Kw) || d.Kw == "Method":
					want["interactions"]++
				}
			})
			for k, n := range want {
				got := 0
				if o := cat.Obj(k); o != nil {
					got = len(o.Keys)
				}
				if got != n {
					return fmt.Sprintf("the document declares %d %s, the catalog has %d", n, k, got)
				}
			}
			return ""
		})
	})
}
