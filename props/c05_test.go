package props

import (
	"strings"
	"testing"

	"pgregory.net/rapid"

	"verif/vlib"
)

type c05Case struct {
	Doc *vlib.Doc  `json:"doc"`
	A   vlib.Style `json:"a"`
	B   vlib.Style `json:"b"`
}

// firstDiff locates the first difference of two JSON texts (as a path).
func firstDiff(a, b string) string {
	x, e1 := vlib.DecodeOrdered([]byte(a))
	y, e2 := vlib.DecodeOrdered([]byte(b))
	if e1 != nil || e2 != nil {
		return "undecodable"
	}
	return diffVal("$", x, y)
}

func diffVal(path string, x, y any) string {
	switch a := x.(type) {
	case *vlib.OMap:
		b, ok := y.(*vlib.OMap)
		if !ok {
			return path + ": object vs " + vlib.Canon(y)
		}
		if strings.Join(a.Keys, "\x00") != strings.Join(b.Keys, "\x00") {
			return path + ": keys " + strings.Join(a.Keys, ",") + " vs " + strings.Join(b.Keys, ",")
		}
		for _, k := range a.Keys {
			if d := diffVal(path+"."+k, a.Vals[k], b.Vals[k]); d != "" {
				return d
			}
		}
		return ""
	case []any:
		b, ok := y.([]any)
		if !ok || len(a) != len(b) {
			return path + ": list " + trunc(vlib.Canon(x), 150) + " vs " + trunc(vlib.Canon(y), 150)
		}
		for i := range a {
			if d := diffVal(path+"["+itoa(i)+"]", a[i], b[i]); d != "" {
				return d
			}
		}
		return ""
	}
	if vlib.Canon(x) != vlib.Canon(y) {
		return path + ": " + trunc(vlib.Canon(x), 150) + " vs " + trunc(vlib.Canon(y), 150)
	}
	return ""
}

func trunc(s string, n int) string {
	if len(s) > n {
		return s[:n] + "..."
	}
	return s
}

// sameOutcome is the metamorphic oracle: two projects that say the same must
// get the same verdict and, when accepted, the same catalog.
func sameOutcome(what string, srcA, srcB string, ra, rb vlib.Result, regexRef ...bool) *vlib.Failure {
	srcA, srcB = vlib.StripCR(srcA), vlib.StripCR(srcB)
	for _, r := range []vlib.Result{ra, rb} {
		if r.Panic != "" {
			return vlib.Failf("panic: "+r.Panic, "%s\n--- A:\n%s\n--- B:\n%s", r.Panic, srcA, srcB)
		}
	}
	if ra.Accepted != rb.Accepted {
		msg := ""
		if ra.Err != nil {
			msg = "A rejected: " + ra.Err.Msg + " (line " + itoa(ra.Err.Line) + ")"
		}
		if rb.Err != nil {
			msg = "B rejected: " + rb.Err.Msg + " (line " + itoa(rb.Err.Line) + ")"
		}
		return vlib.Failf(what+": verdict-differs", "the two texts say the same but only one is accepted; %s\n--- A:\n%s\n--- B:\n%s", msg, srcA, srcB)
	}
	if ra.Accepted && ra.JSON != rb.JSON {
		if k := vlib.SameCatalog(len(regexRef) > 0 && regexRef[0], ra.JSON, rb.JSON); k == vlib.KeyRegexExample {
			return vlib.Failf(k, "the catalogs differ only in example strings derived from a regex user type, at %s\n--- A:\n%s\n--- B:\n%s", firstDiff(ra.JSON, rb.JSON), srcA, srcB)
		}
		return vlib.Failf(what+": catalog-differs", "the two texts say the same but the catalogs differ at %s\n--- A:\n%s\n--- B:\n%s", firstDiff(ra.JSON, rb.JSON), srcA, srcB)
	}
	return nil
}

func c05Check(c c05Case, info *vlib.Info) *vlib.Failure {
	if p := c.Doc.ResolveCheck(); p != "" {
		return vlib.Failf("harness: model/text mismatch", "%s", p)
	}
	a := vlib.Render(c.Doc, c.A)
	b := vlib.Render(c.Doc, c.B)
	classes := map[string]bool{}
	for _, r := range []vlib.Rendered{a, b} {
		for k := range r.Knobs {
			classes[k] = true
		}
	}
	for k := range classes {
		info.Class("knob:" + k)
	}
	n := 0
	c.Doc.Walk(func(*vlib.Dir, *vlib.Dir) { n++ })
	ra := vlib.Run(vlib.Single(a.Text))
	rb := vlib.Run(vlib.Single(b.Text))
	info.NonTrivial = ra.Accepted && n >= 4 && len(classes) >= 2
	if c.A.OnlyKnob != "" || c.B.OnlyKnob != "" {
		info.NonTrivial = ra.Accepted && n >= 4
	}
	if ra.Accepted {
		info.Class("accepted")
	} else {
		info.Class("rejected")
	}
	info.Sample = map[string]any{"a": a.Text, "b": b.Text}
	return sameOutcome("restyle", a.Text, b.Text, ra, rb, vlib.RegexTypeReferenced(c.Doc))
}

var c05Knobs = []string{"comment-line", "block-comment", "blank-line", "trailing-blanks", "trailing-comment", "quote-param", "explicit-parens", "annotation-block-spelling", "description-parens", "reindent-line"}

func TestC05(t *testing.T) {
	h := vlib.New(t, "C05", "exploration",
		"generated documents (valid, and with one injected fault) x two independently drawn styles (comment lines, block comments, blank lines, indentation, trailing blanks, trailing comments, LF/CRLF/CR, final line end present or not, quoting of parameters, explicit parentheses, annotation and description spelling); thorough tier additionally applies every rewrite at every single position of 2000 documents; oracle: same verdict and byte-identical catalog; non-trivial = accepted, >= 4 directives, the two renderings differ in >= 2 knob classes; distinct by (document, style pair)",
		"newline rewriting only for documents whose free text is single-line (the property excludes multi-line free text)", "a trailing '# comment' is not placed after a /* */ annotation nor after bare description text (there '#' is content)", "nothing is required of the diagnostic of a rejected document beyond its existence")
	h.Require("accepted", "rejected", "knob:comment-line", "knob:block-comment", "knob:blank-line", "knob:trailing-blanks", "knob:trailing-comment", "knob:quote-param", "knob:explicit-parens", "knob:annotation-block-spelling", "knob:description-parens", "knob:newline-crlf", "knob:newline-cr", "knob:no-final-newline")

	gen := func(faulty bool) func(t *rapid.T) c05Case {
		return func(t *rapid.T) c05Case {
			doc := vlib.GenDoc(t, vlib.GenOpts{Macros: rapid.Bool().Draw(t, "macros"), SingleLineText: rapid.Bool().Draw(t, "single")})
			if faulty {
				if d2, ok := vlib.InjectBodyFault(t, doc); ok && rapid.IntRange(0, 3).Draw(t, "bodyFault") == 0 {
					doc = d2
				} else {
					doc = injectAnyFault(t, doc)
				}
			}
			nl := !doc.HasMultilineFreeText()
			return c05Case{Doc: doc, A: genStyle(t, nl), B: genStyle(t, nl)}
		}
	}
	runPairRegression(h, c05Pairs)
	vlib.Rapid(h, "style-pairs-valid-docs", h.N(8000, 500000), gen(false), c05Check)
	vlib.Rapid(h, "style-pairs-faulty-docs", h.N(3000, 150000), gen(true), c05Check)

	// position-exhaustive: every single application of every rewrite
	ndocs := h.N(40, 2000)
	vlib.Rapid(h, "single-position-rewrites", ndocs, func(t *rapid.T) *vlib.Doc {
		return vlib.GenDoc(t, vlib.GenOpts{Macros: rapid.Bool().Draw(t, "macros")})
	}, func(doc *vlib.Doc, info *vlib.Info) *vlib.Failure {
		points := vlib.RewritePoints(doc)
		base := vlib.Render(doc, vlib.Style{})
		rbase := vlib.Run(vlib.Single(base.Text))
		total := 0
		for _, knob := range c05Knobs {
			for n := 1; n <= points[knob]; n++ {
				st := vlib.Style{OnlyKnob: knob, OnlyN: n, Seed: uint64(n)}
				r := vlib.Render(doc, st)
				total++
				if r.Text == base.Text {
					continue
				}
				res := vlib.Run(vlib.Single(r.Text))
				if f := sameOutcome("single-rewrite:"+knob, base.Text, r.Text, rbase, res, vlib.RegexTypeReferenced(doc)); f != nil {
					return f
				}
			}
		}
		info.NonTrivial = rbase.Accepted && total > 10
		info.Class("position-exhaustive-doc")
		info.Sample = map[string]any{"rewrites": total, "source": base.Text}
		return nil
	})
}
