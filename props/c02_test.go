package props

import (
	"fmt"
	"regexp"
	"strings"
	"testing"

	"pgregory.net/rapid"

	"verif/vlib"
)

// c02Bytes: location sanity of whatever diagnostic a byte-level input gets.
func c02Bytes(src string, info *vlib.Info) *vlib.Failure {
	p := vlib.Single(src)
	res := vlib.Run(p)
	if res.Err == nil {
		info.Class("no-diagnostic")
		return nil
	}
	info.Class("rejected")
	conv := vlib.NewlineConvention(src)
	info.Class("nl:" + conv)
	info.NonTrivial = res.Err.Line > 1
	if len(src) > 400 {
		info.Sample = src[:400] + "..."
	}
	if f := vlib.CheckLocation(res.Err, p.Files); f != nil {
		f.Msg += "\n--- source:\n" + vlib.StripCR(trunc(src, 3000))
		if hasRecursiveTypes(src) {
			// known finding (F27 residue): with mutually recursive user types the
			// schema library attributes a type error to a type it picks in map order
			f.Key = keyF27
		}
		return f
	}
	if res.Err.Full != res.Err.Msg && !strings.Contains(src, "INCLUDE") {
		return vlib.Failf("trace-on-root-fault", "single-file project without INCLUDE, but the error text carries an include trace: %q", res.Err.Full)
	}
	return nil
}

type c02Case struct {
	Doc   *vlib.Doc  `json:"doc"` // faulty document, possibly with INCLUDE nodes
	Fault vlib.Fault `json:"fault"`
	Style vlib.Style `json:"style"`
}

// includeChain finds, for the file a diagnostic is in, the chain of INCLUDE
// nodes that brought the file in (innermost first). ok=false when the file is
// included from more than one place (then the chain is not unique).
func includeChains(doc *vlib.Doc, r vlib.Rendered, file string) [][][2]any {
	var out [][][2]any
	var rec func(list []*vlib.Dir, chain [][2]any)
	rec = func(list []*vlib.Dir, chain [][2]any) {
		for _, d := range list {
			if d.Kw == "INCLUDE" {
				sp := r.Spans[d.ID]
				dirOf := ""
				if i := strings.LastIndex(sp.File, "/"); i >= 0 {
					dirOf = sp.File[:i+1]
				}
				target := dirOf + d.Params[0]
				nc := append([][2]any{{sp.File, sp.Line}}, chain...)
				if target == file {
					out = append(out, nc)
				}
				rec(d.Included, nc)
				continue
			}
			rec(d.Children, chain)
		}
	}
	rec(doc.Top, nil)
	return out
}

func c02Check(c c02Case, info *vlib.Info) *vlib.Failure {
	r := vlib.Render(c.Doc, c.Style)
	p := r.Project()
	dir := vlib.Materialise(p)
	defer removeAll(dir)
	res := vlib.RunIn(p, dir)
	nInc, depth := c.Doc.IncludeStats()
	conv := "LF"
	if c.Style.NL == "\r\n" {
		conv = "CRLF"
	} else if c.Style.NL == "\r" {
		conv = "CR"
	}
	info.Class("nl:" + conv)
	info.Class("fault:" + c.Fault.Kind)
	show := func() string {
		var sb strings.Builder
		for n, t := range r.Files {
			fmt.Fprintf(&sb, "=== %s\n%s\n", n, vlib.StripCR(t))
		}
		return sb.String()
	}
	if res.Panic != "" {
		return vlib.Failf("panic: "+res.Panic, "%s\n%s", res.Panic, show())
	}
	if res.Err == nil {
		info.Class("not-rejected")
		return nil // C11 is about that
	}
	info.Class(fmt.Sprintf("fault-at-include-depth:%d", min(depthOfFile(c.Doc, r, res.Err.File), 4)))
	info.NonTrivial = res.Err.Line > 1
	info.Fingerprint = vlib.Hash64(show())
	info.Sample = map[string]any{"files": r.Files, "error": res.Err.Full}
	if f := vlib.CheckLocation(res.Err, r.Files); f != nil {
		f.Msg += "\n" + show()
		return f
	}
	// the diagnostic lies in the span of an offending directive (when the model knows them)
	if spans := offenderSpans(c.Doc.Flat(), r, c.Fault); len(spans) > 0 {
		in := false
		for _, sp := range spans {
			if sp.File == res.Err.File && res.Err.Index >= sp.Begin && res.Err.Index < sp.End {
				in = true
			}
		}
		if !in {
			return vlib.Failf("fault-mislocated: "+c.Fault.Kind, "fault %q: diagnostic %q at %s byte %d (line %d) is outside the offending directives' spans %v\n%s", c.Fault.Kind, res.Err.Msg, res.Err.File, res.Err.Index, res.Err.Line, spans, show())
		}
	}
	// include trace
	chains := includeChains(c.Doc, r, res.Err.File)
	if res.Err.File == "root.jst" {
		if res.Err.Full != res.Err.Msg {
			return vlib.Failf("trace-on-root-fault", "the fault is in the root file but the error text carries an include trace:\n%s\n%s", vlib.RelTrace(res.Err.Full, dir), show())
		}
		return nil
	}
	_ = nInc
	_ = depth
	if len(chains) == 0 {
		return vlib.Failf("harness", "no include chain found for %s", res.Err.File)
	}
	got := vlib.RelTrace(res.Err.Full, dir)
	var wants []string
	for _, ch := range chains {
		var sb strings.Builder
		sb.WriteString(res.Err.Msg)
		fmt.Fprintf(&sb, "\n%s:%d", res.Err.File, res.Err.Line)
		for _, e := range ch {
			fmt.Fprintf(&sb, "\n%s:%d", e[0], e[1])
		}
		wants = append(wants, sb.String())
		if sb.String() == got {
			info.Class("trace-checked")
			return nil
		}
	}
	// known finding F10: the line of an INCLUDE that is not the first INCLUDE
	// of its includer is reported as the line of that first INCLUDE
	for _, ch := range chains {
		if traceMatchesModuloFirstInclude(c.Doc, r, res.Err, got, ch) {
			return vlib.Failf(keyF10, "include trace names the line of an earlier INCLUDE of the same includer:\n got: %q\nwant: %q\n%s", got, wants[0], show())
		}
	}
	return vlib.Failf("include-trace", "wrong include trace:\n got: %q\nwant: %q\n%s", got, wants[0], show())
}

const keyF27 = "schema-error-attribution-with-recursive-types"

var typeNameRe = regexp.MustCompile(`@[A-Za-z0-9_-]+`)

// hasRecursiveTypes: some TYPE of the text references itself, directly or
// through other TYPEs (textual approximation: names used between one TYPE
// line and the next line that starts with a keyword).
func hasRecursiveTypes(src string) bool {
	src = strings.ReplaceAll(strings.ReplaceAll(src, "\r\n", "\n"), "\r", "\n")
	refs := map[string][]string{}
	cur := ""
	for _, l := range strings.Split(src, "\n") {
		t := strings.TrimLeft(l, " \t")
		if strings.HasPrefix(t, "TYPE") {
			names := typeNameRe.FindAllString(t, -1)
			cur = ""
			if len(names) > 0 {
				cur = names[0]
			}
			continue
		}
		if len(t) > 0 && t[0] >= 'A' && t[0] <= 'Z' {
			cur = ""
			continue
		}
		if cur != "" {
			refs[cur] = append(refs[cur], typeNameRe.FindAllString(t, -1)...)
		}
	}
	state := map[string]int{}
	var dfs func(n string) bool
	dfs = func(n string) bool {
		switch state[n] {
		case 1:
			return true
		case 2:
			return false
		}
		state[n] = 1
		for _, m := range refs[n] {
			if dfs(m) {
				return true
			}
		}
		state[n] = 2
		return false
	}
	for n := range refs {
		if dfs(n) {
			return true
		}
	}
	return false
}

const keyF10 = "trace-line-of-earlier-include-of-includer"

// traceMatchesModuloFirstInclude: got equals the expected trace when every
// includer line may also be the line of the FIRST include written in that
// includer file.
func traceMatchesModuloFirstInclude(doc *vlib.Doc, r vlib.Rendered, e *vlib.ErrInfo, got string, chain [][2]any) bool {
	incLines := map[string][]int{}
	var rec func(list []*vlib.Dir)
	rec = func(list []*vlib.Dir) {
		for _, d := range list {
			if d.Kw == "INCLUDE" {
				sp := r.Spans[d.ID]
				incLines[sp.File] = append(incLines[sp.File], sp.Line)
				rec(d.Included)
				continue
			}
			rec(d.Children)
		}
	}
	rec(doc.Top)
	lines := strings.Split(got, "\n")
	// the message may itself hold newlines: take the last len(chain)+1 lines
	if len(lines) < len(chain)+2 {
		return false
	}
	tail := lines[len(lines)-len(chain)-1:]
	if tail[0] != fmt.Sprintf("%s:%d", e.File, e.Line) {
		return false
	}
	for i, ce := range chain {
		file := ce[0].(string)
		ok := tail[i+1] == fmt.Sprintf("%s:%d", file, ce[1])
		for _, l := range incLines[file] {
			// the line of an earlier INCLUDE of the same includer
			if l < ce[1].(int) && tail[i+1] == fmt.Sprintf("%s:%d", file, l) {
				ok = true
			}
		}
		if !ok {
			return false
		}
	}
	return true
}

func depthOfFile(doc *vlib.Doc, r vlib.Rendered, file string) int {
	best := 0
	for _, ch := range includeChains(doc, r, file) {
		if len(ch) > best {
			best = len(ch)
		}
	}
	return best
}

// offenderSpans: where a diagnostic for the fault may point (see C11).
// pastedBodySpans: the bodies of the macros an offending directive pastes
// (transitively) are, after expansion, part of that directive: a diagnostic
// about a pasted child of the offender is reported there.
func pastedBodySpans(flat *vlib.Doc, r vlib.Rendered, offenders []int) []vlib.Span {
	offSet := map[int]bool{}
	for _, o := range offenders {
		offSet[o] = true
	}
	macros := map[string]*vlib.Dir{}
	flat.Walk(func(d, _ *vlib.Dir) {
		if d.Kw == "MACRO" && len(d.Params) > 0 {
			macros[d.Params[0]] = d
		}
	})
	seen := map[string]bool{}
	var visit func(d *vlib.Dir)
	visit = func(d *vlib.Dir) {
		if d.Kw == "PASTE" && len(d.Params) > 0 && !seen[d.Params[0]] {
			seen[d.Params[0]] = true
			if m := macros[d.Params[0]]; m != nil {
				visit(m)
			}
		}
		for _, c := range d.Children {
			visit(c)
		}
	}
	flat.Walk(func(d, _ *vlib.Dir) {
		if offSet[d.ID] {
			visit(d)
		}
	})
	var spans []vlib.Span
	for name := range seen {
		if m := macros[name]; m != nil {
			spans = append(spans, r.Spans[m.ID])
		}
	}
	return spans
}

func offenderSpans(flat *vlib.Doc, r vlib.Rendered, fault vlib.Fault) []vlib.Span {
	if strings.HasPrefix(fault.Kind, "omit-param-") {
		switch strings.TrimPrefix(fault.Kind, "omit-param-") {
		case "TYPE", "ENUM", "TAG", "MACRO", "SERVER":
			return nil
		}
	}
	if fault.Route == "in-unused-macro" || fault.Kind == "" {
		return nil
	}
	var spans []vlib.Span
	offSet := map[int]bool{}
	for _, o := range fault.Offenders {
		offSet[o] = true
	}
	// the offending directives and everything nested in them (children may live
	// in other files)
	var addAll func(d *vlib.Dir)
	addAll = func(d *vlib.Dir) {
		if sp, ok := r.Spans[d.ID]; ok {
			spans = append(spans, sp)
		}
		for _, c := range d.Children {
			addAll(c)
		}
	}
	flat.Walk(func(d, _ *vlib.Dir) {
		if offSet[d.ID] {
			addAll(d)
		}
	})
	offMacros := map[string]bool{}
	flat.Walk(func(d, _ *vlib.Dir) {
		if d.Kw != "MACRO" || len(d.Params) == 0 {
			return
		}
		msp := r.Spans[d.ID]
		for _, sp := range spans {
			if sp.File == msp.File && sp.Begin >= msp.Begin && sp.End <= msp.End {
				offMacros[d.Params[0]] = true
			}
		}
	})
	for changed := true; changed; {
		changed = false
		flat.Walk(func(d, _ *vlib.Dir) {
			if d.Kw == "MACRO" && len(d.Params) > 0 && !offMacros[d.Params[0]] {
				hit := false
				var rec func(x *vlib.Dir)
				rec = func(x *vlib.Dir) {
					if x.Kw == "PASTE" && len(x.Params) > 0 && offMacros[x.Params[0]] {
						hit = true
					}
					for _, ch := range x.Children {
						rec(ch)
					}
				}
				rec(d)
				if hit {
					offMacros[d.Params[0]], changed = true, true
				}
			}
		})
	}
	flat.Walk(func(d, _ *vlib.Dir) {
		if d.Kw == "PASTE" && len(d.Params) > 0 && offMacros[d.Params[0]] {
			spans = append(spans, r.Spans[d.ID])
		}
	})
	return append(spans, pastedBodySpans(flat, r, fault.Offenders)...)
}

// traceCase: a hand-written project whose diagnostic must carry exactly this
// relative include trace (lines after the message).
type traceCase struct {
	Name  string            `json:"name"`
	Files map[string]string `json:"files"`
	Trace []string          `json:"trace"`
}

var c02Traces = []traceCase{
	{Name: "F41-pending-directive-before-include", Files: map[string]string{
		"root.jst": "JSIGHT 0.3\nGET /a\n  200 any\n    Title \"x\"\nINCLUDE inc.jst\n", "inc.jst": "TYPE @t\n{}\n"}, Trace: nil},
	{Name: "fault-in-included-file", Files: map[string]string{
		"root.jst": "JSIGHT 0.3\nINCLUDE inc.jst\n", "inc.jst": "TYPE @t\n{}\nTYPE @t\n{}\n"}, Trace: []string{"inc.jst:3", "root.jst:2"}},
}

// eachPendingChain enumerates include chains f0 (root) -> f1 -> ... -> fD in
// which file L ends its own text with a faulty directive directly before its
// INCLUDE: the fault is found only after the next file (and, when that file
// starts with its own INCLUDE, several files) has been entered. The trace must
// be that of file L.
func eachPendingChain(yield func(traceCase) bool) {
	type pend struct {
		name, text string
		errLine    int // line of the diagnostic inside text (0-based)
	}
	pends := []pend{
		{"title-under-response", "GET /a\n  200 any\n    Title \"x\"\n", 2},
		{"response-at-top", "200 any\n", 0},
		{"title-at-top", "Title \"x\"\n", 0},
		{"tag-without-name", "TAG\n", 0},
		{"server-without-name", "SERVER\n", 0},
		{"paste-at-top-of-undefined", "PASTE @nope\n", 0},
		{"second-version", "INFO\n  Version 1\n  Version 2\n", 2},
	}
	prefixes := []string{"", "# c\n", "\n\n###\n block\n###\n"}
	name := func(i int) string {
		if i == 0 {
			return "root.jst"
		}
		return "f" + itoa(i) + ".jst"
	}
	for depth := 1; depth <= 4; depth++ {
		for L := 0; L < depth; L++ {
			for _, pd := range pends {
				for pi, prefix := range prefixes {
					files := map[string]string{}
					incLine := make([]int, depth)
					faultLine := 0
					for i := 0; i < depth; i++ {
						txt := ""
						if i == 0 {
							txt = "JSIGHT 0.3\n"
						}
						if i > 0 || pi > 0 {
							txt += prefix
						}
						if i == L {
							faultLine = strings.Count(txt, "\n") + 1 + pd.errLine
							txt += pd.text
						}
						incLine[i] = strings.Count(txt, "\n") + 1
						txt += "INCLUDE " + name(i+1) + "\n"
						files[name(i)] = txt
					}
					files[name(depth)] = "TYPE @t\n{}\n"
					var trace []string
					if L > 0 {
						trace = append(trace, name(L)+":"+itoa(faultLine))
						for i := L - 1; i >= 0; i-- {
							trace = append(trace, name(i)+":"+itoa(incLine[i]))
						}
					}
					if !yield(traceCase{Name: "pending:" + pd.name, Files: files, Trace: trace}) {
						return
					}
				}
			}
		}
	}
}

func traceCheck(c traceCase, info *vlib.Info) *vlib.Failure {
	info.NonTrivial = true
	info.Class("regression-trace")
	p := vlib.Project{Files: c.Files, Root: "root.jst"}
	dir := vlib.Materialise(p)
	defer removeAll(dir)
	res := vlib.RunIn(p, dir)
	if res.Err == nil {
		return vlib.Failf("regression: "+c.Name, "%s: expected a diagnostic", c.Name)
	}
	got := strings.Split(vlib.RelTrace(res.Err.Full, dir), "\n")[strings.Count(res.Err.Msg, "\n")+1:]
	if strings.Join(got, "|") != strings.Join(c.Trace, "|") {
		return vlib.Failf("regression: "+c.Name, "%s: diagnostic %q carries the trace %q, expected %q", c.Name, res.Err.Msg, got, c.Trace)
	}
	return nil
}

// c02Lex: a valid document's text with one lexical fault; the diagnostic's
// index must lie in [Lo, Hi] (byte offsets in Source).
type c02Lex struct {
	Source string `json:"source"`
	Kind   string `json:"kind"`
	Lo     int    `json:"lo"`
	Hi     int    `json:"hi"`
}

func genLexFault(t *rapid.T) c02Lex {
	doc := vlib.GenDoc(t, vlib.GenOpts{Macros: rapid.Bool().Draw(t, "macros"), SingleLineText: true})
	r := vlib.Render(doc, vlib.Style{})
	src := r.Text
	var dirs []*vlib.Dir
	doc.Walk(func(d, _ *vlib.Dir) {
		if d.Kw != "JSIGHT" {
			dirs = append(dirs, d)
		}
	})
	di := rapid.IntRange(0, len(dirs)-1).Draw(t, "dir")
	d := dirs[di]
	sp := r.Spans[d.ID]
	c := c02Lex{}
	if di > 0 && dirs[di-1].Kw == "Description" {
		// the line after bare description text is text unless it starts with a
		// keyword: a fault there is not a fault
		return c02Lex{Source: src, Kind: "none"}
	}
	kind := rapid.SampledFrom([]string{"bad-keyword-letter", "stray-close-paren", "illegal-byte", "schema-syntax", "bad-escape", "unclosed-paren-at-eof"}).Draw(t, "kind")
	switch kind {
	case "bad-keyword-letter":
		if !vlib.IsCode(d.Kw) && len(d.Kw) >= 3 {
			i := sp.Begin + len(d.Kw) - 1
			c = c02Lex{Source: src[:i] + "q" + src[i+1:], Kind: kind, Lo: sp.Begin, Hi: sp.Begin + len(d.Kw)}
		}
	case "stray-close-paren":
		// only where no parenthesis is open: before a top-level directive
		for _, td := range doc.Top {
			if td == d {
				ls := strings.LastIndex(src[:sp.Begin], "\n") + 1
				c = c02Lex{Source: src[:ls] + ")\n" + src[ls:], Kind: kind, Lo: ls, Hi: ls + 1}
			}
		}
	case "illegal-byte":
		ls := strings.LastIndex(src[:sp.Begin], "\n") + 1
		c = c02Lex{Source: src[:ls] + "\x01" + src[ls:], Kind: kind, Lo: ls, Hi: ls + 1}
	case "schema-syntax":
		if sp.BodyEnd > sp.BodyBeg && d.Schema != nil && d.Schema.Root == "obj" {
			if j := strings.Index(src[sp.BodyBeg:sp.BodyEnd], "\":"); j >= 0 {
				i := sp.BodyBeg + j + 1
				c = c02Lex{Source: src[:i] + ";" + src[i+1:], Kind: kind, Lo: sp.BodyBeg, Hi: sp.BodyEnd}
			}
		}
	case "bad-escape":
		line := src[sp.Begin:]
		if nl := strings.Index(line, "\n"); nl >= 0 {
			line = line[:nl]
		}
		if q := len(d.Kw); len(line) > q+1 && line[q] == ' ' && line[q+1] == '"' {
			i := sp.Begin + q + 2
			c = c02Lex{Source: src[:i] + "\\q" + src[i:], Kind: kind, Lo: i + 1, Hi: i + 1}
		}
	case "unclosed-paren-at-eof":
		last := doc.Top[len(doc.Top)-1]
		if last.Explicit {
			trimmed := strings.TrimRight(src, "\n")
			if strings.HasSuffix(trimmed, ")") {
				ns := trimmed[:len(trimmed)-1]
				c = c02Lex{Source: ns, Kind: kind, Lo: len(ns) - 2, Hi: len(ns)}
			}
		}
	}
	if c.Kind == "" {
		return c02Lex{Source: src, Kind: "none"}
	}
	// newline convention: positions move by one byte per earlier line break
	switch rapid.IntRange(0, 2).Draw(t, "nl") {
	case 1:
		shift := func(i int) int { return i + strings.Count(c.Source[:min(i, len(c.Source))], "\n") }
		c.Lo, c.Hi = shift(c.Lo), shift(c.Hi)+1
		c.Source = strings.ReplaceAll(c.Source, "\n", "\r\n")
	case 2:
		c.Source = strings.ReplaceAll(c.Source, "\n", "\r")
	}
	return c
}

func c02LexCheck(c c02Lex, info *vlib.Info) *vlib.Failure {
	if c.Kind == "none" {
		info.Class("lex:ineligible")
		return nil
	}
	info.Class("lex:" + c.Kind)
	info.Class("nl:" + vlib.NewlineConvention(c.Source))
	p := vlib.Single(c.Source)
	res := vlib.Run(p)
	if res.Panic != "" {
		return vlib.Failf("panic: "+res.Panic, "%s\n%s", res.Panic, vlib.StripCR(c.Source))
	}
	if res.Err == nil {
		return vlib.Failf("lexical-fault-accepted: "+c.Kind, "a document with the lexical fault %q is accepted\n%s", c.Kind, vlib.StripCR(c.Source))
	}
	info.NonTrivial = res.Err.Line > 1
	if f := vlib.CheckLocation(res.Err, p.Files); f != nil {
		f.Msg += "\n--- source:\n" + vlib.StripCR(c.Source)
		return f
	}
	if res.Err.Index < c.Lo || res.Err.Index > c.Hi {
		return vlib.Failf("lexical-fault-mislocated: "+c.Kind, "lexical fault %q at bytes [%d,%d]: the diagnostic %q points at byte %d (line %d)\n%s", c.Kind, c.Lo, c.Hi, res.Err.Msg, res.Err.Index, res.Err.Line, vlib.StripCR(c.Source))
	}
	return nil
}

func TestC02(t *testing.T) {
	h := vlib.New(t, "C02", "fault_enumeration",
		"every rejected case of: token sequences enumerated after canonical prefixes, token soups, mutated fixtures, fixtures in LF / CRLF / CR (file, index bounds, line and quote recomputed from the index alone), and valid generated documents x one injected fault of every C11 kind x newline convention x a cut into included files up to the tier's depth (same file set rendered with random styles): the diagnostic must lie in the file and span of an offending directive and Error() must be message + fault file:line + one includer:line per enclosing INCLUDE, innermost first; non-trivial = diagnostic not on line 1; distinct by project text",
		"line / quote reference is defined for files with one newline convention; for mixed conventions only ranges are checked", "offending spans come from the document model (as in C11)")
	defer vlib.CleanupScratch()
	req := []string{"lex:bad-keyword-letter", "lex:stray-close-paren", "lex:illegal-byte", "lex:schema-syntax", "lex:bad-escape", "lex:unclosed-paren-at-eof", "rejected", "nl:LF", "nl:CRLF", "nl:CR", "fault-at-include-depth:0", "fault-at-include-depth:1", "fault-at-include-depth:2", "trace-checked", "include-project"}
	h.Require(req...)
	// failing inputs of the native fuzz arm (thorough tier, driver-run) replay through this campaign
	vlib.Enum(h, "native-fuzz", false, func(func(string) bool) {}, c02Bytes)

	vlib.Enum(h, "regression-traces", false, func(yield func(traceCase) bool) {
		for i, c := range c02Traces {
			if h.Mine(i) && !yield(c) {
				return
			}
		}
	}, traceCheck)
	vlib.Enum(h, "pending-directive-before-include-chains", true, func(yield func(traceCase) bool) {
		i := 0
		eachPendingChain(func(c traceCase) bool {
			i++
			return !h.Mine(i) || yield(c)
		})
	}, func(c traceCase, info *vlib.Info) *vlib.Failure {
		f := traceCheck(c, info)
		if f != nil {
			f.Key = "trace-of-" + c.Name
		}
		info.Class("pending-directive-chain")
		return f
	})
	vlib.Enum(h, "fixtures-3-newline-conventions", false, func(yield func(string) bool) {
		i := 0
		for _, c := range vlib.Corpus() {
			lf := strings.ReplaceAll(strings.ReplaceAll(c.Content, "\r\n", "\n"), "\r", "\n")
			for _, s := range []string{lf, strings.ReplaceAll(lf, "\n", "\r\n"), strings.ReplaceAll(lf, "\n", "\r")} {
				if h.Mine(i) && !yield(s) {
					return
				}
				i++
			}
		}
	}, c02Bytes)
	vlib.Enum(h, "tokenseq-exhaustive", true, func(yield func(string) bool) {
		eachTokenSeqJoin(vlib.Prefixes, vlib.Sigma, 2, " ", h.Mine, yield)
	}, c02Bytes)
	vlib.Enum(h, "long-lines-exhaustive", true, func(yield func(string) bool) {
		vlib.EachLongLine(h.Mine, yield)
	}, func(src string, info *vlib.Info) *vlib.Failure {
		f := c02Bytes(src, info)
		info.Class("long-line")
		return f
	})
	vlib.Rapid(h, "schema-rule-soup", h.N(8000, 300000), vlib.GenRuleSoup, c02Bytes)
	vlib.Rapid(h, "fixture-mutation", h.N(20000, 1000000), vlib.GenMutation, c02Bytes)
	vlib.Rapid(h, "token-soup", h.N(10000, 500000), func(t *rapid.T) string {
		return rapid.SampledFrom(vlib.Prefixes).Draw(t, "prefix") + vlib.GenTokenSoup(t, 14)
	}, c02Bytes)

	// hostile include graphs (empty, missing, directory, self- and mutually
	// including files, parentheses around INCLUDE): wherever the diagnostic is
	// located, file / index / line / quote must agree with that file's bytes,
	// and every trace entry must be a line of a project file - the first one the
	// diagnostic's own line, the others lines that hold an INCLUDE
	vlib.Rapid(h, "include-projects", h.N(6000, 300000), vlib.GenIncludeProject, func(p vlib.Project, info *vlib.Info) *vlib.Failure {
		dir := vlib.Materialise(p)
		defer removeAll(dir)
		res := vlib.RunIn(p, dir)
		if res.Err == nil || res.Panic != "" {
			return nil
		}
		info.Class("rejected")
		info.Class("include-project")
		info.NonTrivial = res.Err.File != "root.jst"
		if res.Err.File != "" && p.Files[res.Err.File] == "" {
			info.Class("diagnostic-in-empty-file")
		}
		show := func() string {
			var sb strings.Builder
			for n, t := range p.Files {
				fmt.Fprintf(&sb, "=== %s\n%s\n", n, trunc(t, 600))
			}
			return sb.String()
		}
		if f := vlib.CheckLocation(res.Err, p.Files); f != nil {
			f.Msg += "\n" + show()
			return f
		}
		lines := strings.Split(vlib.RelTrace(res.Err.Full, dir), "\n")[strings.Count(res.Err.Msg, "\n")+1:]
		if res.Err.File != "root.jst" && len(lines) == 0 {
			return vlib.Failf("include-trace-missing", "the diagnostic %q is located in the included file %s but its text carries no include chain\n%s", res.Err.Msg, res.Err.File, show())
		}
		for i, l := range lines {
			k := strings.LastIndex(l, ":")
			if k < 0 {
				return vlib.Failf("include-trace-shape", "trace entry %q is not file:line\n%s", l, show())
			}
			file, ln := l[:k], atoi(l[k+1:])
			content, ok := p.Files[file]
			if !ok {
				return vlib.Failf("include-trace-file", "trace entry %q names no file of the project\n%s", l, show())
			}
			all := strings.Split(strings.ReplaceAll(strings.ReplaceAll(content, "\r\n", "\n"), "\r", "\n"), "\n")
			if ln < 1 || ln > len(all) {
				return vlib.Failf("include-trace-line", "trace entry %q: %s has %d lines\n%s", l, file, len(all), show())
			}
			if i == 0 {
				if file != res.Err.File || ln != res.Err.Line {
					return vlib.Failf("include-trace-first", "the first trace entry %q is not the diagnostic's own place %s:%d\n%s", l, res.Err.File, res.Err.Line, show())
				}
			} else if !strings.Contains(all[ln-1], "INCLUDE") {
				return vlib.Failf("include-trace-line", "trace entry %q: line %d of %s holds no INCLUDE (%q)\n%s", l, ln, file, all[ln-1], show())
			}
		}
		return nil
	})
	vlib.Rapid(h, "lexical-faults", h.N(10000, 400000), genLexFault, c02LexCheck)

	maxDepth := h.Pick(3, 6)
	vlib.Rapid(h, "injected-faults-in-split-projects", h.N(12000, 600000), func(t *rapid.T) c02Case {
		base := vlib.GenDoc(t, vlib.GenOpts{Macros: rapid.Bool().Draw(t, "macros"), SingleLineText: true})
		var doc *vlib.Doc
		var fault vlib.Fault
		switch rapid.IntRange(0, 4).Draw(t, "faultSource") {
		case 0:
			d2, _, ok := vlib.InjectSchemaConfusion(t, base)
			doc = base
			if ok {
				doc = d2
			}
		default:
			d2, f, ok := vlib.InjectFault(t, base)
			doc = base
			if ok {
				doc, fault = d2, f
			}
		}
		if rapid.IntRange(0, 3).Draw(t, "split") > 0 {
			doc = vlib.SplitIntoFiles(t, doc, maxDepth)
		}
		st := genStyle(t, true)
		st.Parens = 0 // explicit contexts would move faults relative to spans? no - but keep includes legal
		return c02Case{Doc: doc, Fault: fault, Style: st}
	}, c02Check)
}
