package props

import (
	"strings"
	"testing"

	"pgregory.net/rapid"

	"verif/vlib"
)

type docCase struct {
	Doc   *vlib.Doc  `json:"doc"`
	Style vlib.Style `json:"style"`
}

func genStyle(t *rapid.T, allowNewline bool) vlib.Style {
	lvl := func(label string) int {
		// most knobs off most of the time, so shrinking converges to the neutral style
		v := rapid.IntRange(0, 5).Draw(t, label)
		if v > 3 {
			return 0
		}
		return v
	}
	st := vlib.Style{
		Indent: rapid.IntRange(0, 3).Draw(t, "indent"), Comments: lvl("comments"), Blocks: lvl("blocks"), Blanks: lvl("blanks"),
		TrailWS: lvl("trailws"), TrailComment: lvl("trailcomment"), Quote: lvl("quote"), Parens: lvl("parens"),
		AnnBlock: lvl("annblock"), DescParens: lvl("descparens"), Seed: rapid.Uint64Range(1, 1<<40).Draw(t, "styleseed"),
	}
	st.NoFinalNL = rapid.IntRange(0, 3).Draw(t, "noFinalNL") == 0
	if allowNewline {
		st.NL = rapid.SampledFrom([]string{"", "", "\r\n", "\r"}).Draw(t, "nl")
	}
	return st
}

func docStats(doc *vlib.Doc, info *vlib.Info) (nInteractions, nKinds int) {
	kinds := map[string]bool{}
	secondResponse, descBeforeRequest, parenURL, hoisted := false, false, false, false
	doc.Walk(func(d, p *vlib.Dir) {
		if p == nil {
			kinds[d.Kw] = true
		}
		if vlib.IsVerb(d.Kw) || d.Kw == "Method" {
			nInteractions++
			nresp := 0
			sawDesc := false
			for _, c := range d.Children {
				if vlib.IsCode(c.Kw) {
					nresp++
				}
				if c.Kw == "Description" {
					sawDesc = true
				}
				if c.Kw == "Request" && sawDesc {
					descBeforeRequest = true
				}
			}
			if nresp >= 2 {
				secondResponse = true
			}
			if d.Hoisted {
				hoisted = true
			}
		}
		if d.Kw == "URL" && d.Explicit {
			parenURL = true
		}
		if d.Kw == "MACRO" {
			info.Class("has-macro")
		}
	})
	if secondResponse {
		info.Class("second-response")
	}
	if descBeforeRequest {
		info.Class("description-before-request")
	}
	if parenURL {
		info.Class("parenthesised-url")
	}
	if hoisted {
		info.Class("hoisted-method")
	}
	info.NonTrivial = (nInteractions >= 3 || len(kinds) >= 3) && (secondResponse || descBeforeRequest || parenURL || hoisted)
	return nInteractions, len(kinds)
}

func c04Check(c docCase, info *vlib.Info) *vlib.Failure {
	docStats(c.Doc, info)
	if p := c.Doc.ResolveCheck(); p != "" {
		return vlib.Failf("harness: model/text mismatch", "%s", p)
	}
	r := vlib.Render(c.Doc, c.Style)
	info.Sample = map[string]any{"source": r.Text}
	res := vlib.Run(vlib.Single(r.Text))
	if res.Panic != "" {
		return vlib.Failf("panic: "+res.Panic, "%s\n--- source:\n%s", res.Panic, r.Text)
	}
	if !res.Accepted {
		return vlib.Failf("valid-document-rejected: "+normDigits(firstWords(res.Err.Msg, 4)), "a document the language can express is rejected: %s (line %d)\n--- source:\n%s", res.Err.Msg, res.Err.Line, r.Text)
	}
	info.Class("accepted")
	if diffs := vlib.CheckCatalog(c.Doc, res.JSON); len(diffs) > 0 {
		return vlib.Failf("catalog-differs: "+catKey(diffs[0]), "the catalog does not say what the document declares:\n  %s\n--- source:\n%s", strings.Join(diffs, "\n  "), r.Text)
	}
	return nil
}

func firstWords(s string, n int) string {
	f := strings.Fields(s)
	if len(f) > n {
		f = f[:n]
	}
	return strings.Join(f, " ")
}

// catKey reduces a difference to its kind: the path with names and numbers removed.
func catKey(d string) string {
	if i := strings.Index(d, ":"); i > 0 {
		d = d[:i]
	}
	var sb strings.Builder
	depth := 0
	for _, seg := range strings.Split(d, ".") {
		if strings.ContainsAny(seg, "@/ ") || depth > 6 {
			sb.WriteString(".*")
		} else {
			sb.WriteString("." + normDigits(seg))
		}
		depth++
	}
	return sb.String()
}

func TestC04(t *testing.T) {
	h := vlib.New(t, "C04", "exploration",
		"abstract API documents drawn from the model generator (any mix of INFO, SERVER, TYPE in four notations, ENUM, TAG, URL blocks, path-bearing and hoisted methods, JSON-RPC URLs, Query, Path, Request, responses with inline / typed / child Body, Headers, MACRO/PASTE) rendered in the neutral and in a random style; oracle = reference catalog computed from the model (closed key sets, entries in source order); non-trivial = (>= 3 interactions or >= 3 kinds of top-level declarations) and one of: second response, Description before Request, parenthesised URL, hoisted method; distinct by document hash",
		"the reference predicts schema content nodes for the generator's schema grammar only", "'example' strings are not predicted (presence only)", "usedUserTypes compared as a set; transitive allOf bases tolerated (known finding F16, reported under C10)")
	h.Require("accepted", "second-response", "description-before-request", "parenthesised-url", "hoisted-method", "has-macro")
	runRegression(h, c04Regression)
	vlib.Rapid(h, "model-docs-neutral", h.N(6000, 400000), func(t *rapid.T) docCase {
		return docCase{Doc: vlib.GenDoc(t, vlib.GenOpts{Macros: rapid.Bool().Draw(t, "macros")})}
	}, c04Check)
	vlib.Rapid(h, "model-docs-styled", h.N(6000, 400000), func(t *rapid.T) docCase {
		doc := vlib.GenDoc(t, vlib.GenOpts{Macros: rapid.Bool().Draw(t, "macros")})
		return docCase{Doc: doc, Style: genStyle(t, !doc.HasMultilineFreeText())}
	}, c04Check)
}
