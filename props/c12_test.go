package props

import (
	"fmt"
	"strings"
	"testing"

	"pgregory.net/rapid"

	"verif/vlib"
)

// allOfSchemas walks an actual catalog and the reference in parallel and
// compares, for every object schema that has an allOf rule (at any depth), the
// list of (key, inheritedFrom) of its children.
func c12Check(c c10Case, info *vlib.Info) *vlib.Failure {
	doc := c.Doc
	depth2, multiBase, sharedBase := false, false, false
	used := map[string]int{}
	var scan func(o *vlib.Obj)
	scan = func(o *vlib.Obj) {
		if len(o.AllOf) >= 2 {
			multiBase = true
		}
		for _, b := range o.AllOf {
			used[b]++
		}
		for _, p := range o.Props {
			if p.V.Obj != nil {
				scan(p.V.Obj)
			}
		}
	}
	hosts := map[string]bool{}
	doc.Walk(func(d, _ *vlib.Dir) {
		if d.Schema != nil && d.Schema.Obj != nil {
			before := len(used)
			scan(d.Schema.Obj)
			if len(used) > before || len(d.Schema.Obj.AllOf) > 0 {
				hosts[d.Kw] = true
			}
		}
	})
	for _, n := range used {
		if n >= 2 {
			sharedBase = true
		}
	}
	depth2 = len(transitiveBaseNames(doc)) > 0
	info.NonTrivial = depth2 || multiBase || sharedBase
	if depth2 {
		info.Class("chain-depth>=2")
	}
	if multiBase {
		info.Class("several-bases")
	}
	if sharedBase {
		info.Class("base-shared")
	}
	for k := range hosts {
		if vlib.IsCode(k) {
			k = "response"
		}
		info.Class("allOf-in:" + k)
	}
	var firstJSON string
	var firstSrc string
	for i, perm := range c.Perms {
		pd := doc.Permuted(perm)
		if pd.ResolveCheck() != "" {
			continue
		}
		src := vlib.Render(pd, vlib.Style{}).Text
		res := vlib.Run(vlib.Single(src))
		if res.Panic != "" {
			return vlib.Failf("panic: "+res.Panic, "%s\n%s", res.Panic, src)
		}
		if !res.Accepted {
			return vlib.Failf("valid-document-rejected", "rejected in the declaration order %v: %s\n--- source:\n%s", perm, res.Err.Msg, src)
		}
		info.Class("accepted")
		// the whole catalog against the reference: inherited properties first, in
		// base order, marked with the direct base, each once, own properties last;
		// base types left as declared
		if diffs := vlib.CheckCatalog(pd, res.JSON); len(diffs) > 0 {
			return vlib.Failf("allOf-expansion: "+catKey(diffs[0]), "declaration order %v: the catalog does not list the inherited properties as the property prescribes:\n  %s\n--- source:\n%s", perm, strings.Join(diffs, "\n  "), src)
		}
		// identical in every declaration order
		if i == 0 {
			firstJSON, firstSrc = res.JSON, src
		} else if key, detail := entriesEqual(doc, firstJSON, res.JSON); key != "" {
			if key == vlib.KeyRegexExample || key == keyF16 {
				defer func() {}()
				info.Class("known:" + key)
				continue
			}
			return vlib.Failf("allOf-order-dependent", "the expansion depends on the declaration order: %s\n--- first order:\n%s\n--- this order:\n%s", detail, firstSrc, src)
		}
	}
	return nil
}

type c12Neg struct {
	Source string `json:"source"`
	Reason string `json:"reason"`
	Lines  []int  `json:"lines"`
}

func genAllOfNegative(t *rapid.T) c12Neg {
	var sb strings.Builder
	sb.WriteString("JSIGHT 0.3\n")
	line := func() int { return strings.Count(sb.String(), "\n") + 1 }
	n := rapid.IntRange(1, 99).Draw(t, "n")
	kind := rapid.SampledFrom([]string{"override-direct", "override-transitive", "base-scalar", "base-array", "base-regex", "base-any", "base-undefined", "override-nested", "override-in-array-item"}).Draw(t, "kind")
	host := rapid.SampledFrom([]string{"TYPE", "Request", "response", "Headers", "Query", "Params"}).Draw(t, "host")
	// declarations may come before or after the use
	basesFirst := rapid.Bool().Draw(t, "basesFirst")
	bases := fmt.Sprintf("TYPE @base%d\n{\"bk\": 1, \"shared\": 2}\nTYPE @mid%d\n{ // {allOf: \"@base%d\"}\n  \"mk\": 3\n}\nTYPE @scal%d\n5\nTYPE @arr%d\n[1]\nTYPE @rx%d regex\n/ab/\nTYPE @an%d any\n", n, n, n, n, n, n, n)
	if basesFirst {
		sb.WriteString(bases)
	}
	var body string
	switch kind {
	case "override-direct":
		body = fmt.Sprintf("{ // {allOf: \"@base%d\"}\n  \"shared\": 9\n}", n)
	case "override-transitive":
		body = fmt.Sprintf("{ // {allOf: \"@mid%d\"}\n  \"bk\": 9\n}", n)
	case "base-scalar":
		body = fmt.Sprintf("{ // {allOf: \"@scal%d\"}\n  \"own\": 9\n}", n)
	case "base-array":
		body = fmt.Sprintf("{ // {allOf: \"@arr%d\"}\n  \"own\": 9\n}", n)
	case "base-regex":
		body = fmt.Sprintf("{ // {allOf: \"@rx%d\"}\n  \"own\": 9\n}", n)
	case "base-any":
		body = fmt.Sprintf("{ // {allOf: \"@an%d\"}\n  \"own\": 9\n}", n)
	case "base-undefined":
		body = "{ // {allOf: \"@nosuchbase\"}\n  \"own\": 9\n}"
	case "override-nested":
		body = fmt.Sprintf("{\n  \"outer\": { // {allOf: \"@base%d\"}\n    \"bk\": 9\n  }\n}", n)
	case "override-in-array-item":
		body = fmt.Sprintf("{\n  \"items\": [\n    { // {allOf: \"@base%d\"}\n      \"bk\": 9\n    }\n  ]\n}", n)
	}
	emit := func(ind string) {
		for _, l := range strings.Split(body, "\n") {
			sb.WriteString(ind + l + "\n")
		}
	}
	var lines []int
	switch host {
	case "TYPE":
		lines = append(lines, line())
		fmt.Fprintf(&sb, "TYPE @user%d\n", n)
		emit("")
	case "Request":
		fmt.Fprintf(&sb, "POST /r%d\n", n)
		lines = append(lines, line())
		sb.WriteString("  Request\n")
		emit("  ")
	case "response":
		fmt.Fprintf(&sb, "GET /r%d\n", n)
		lines = append(lines, line())
		sb.WriteString("  200\n")
		emit("  ")
	case "Headers":
		fmt.Fprintf(&sb, "GET /r%d\n  200 any\n", n)
		lines = append(lines, line())
		sb.WriteString("    Headers\n")
		emit("    ")
	case "Query":
		fmt.Fprintf(&sb, "GET /r%d\n", n)
		lines = append(lines, line())
		sb.WriteString("  Query\n")
		emit("  ")
		sb.WriteString("  200 any\n")
	case "Params":
		fmt.Fprintf(&sb, "URL /r%d\n  Protocol json-rpc-2.0\n  Method m\n", n)
		lines = append(lines, line())
		sb.WriteString("    Params\n")
		emit("    ")
	}
	if !basesFirst {
		sb.WriteString(bases)
	}
	return c12Neg{Source: sb.String(), Reason: kind + " in " + host, Lines: lines}
}

func c12NegCheck(c c12Neg, info *vlib.Info) *vlib.Failure {
	info.NonTrivial = true
	f := strings.Fields(c.Reason)
	info.Class("neg:" + f[0])
	info.Class("neg-host:" + f[2])
	res := vlib.Run(vlib.Single(c.Source))
	if res.Panic != "" {
		return vlib.Failf("panic: "+res.Panic, "%s (%s)\n%s", res.Panic, c.Reason, c.Source)
	}
	if res.Accepted {
		return vlib.Failf("allOf-fault-accepted: "+f[0], "accepted although: %s\n--- source:\n%s", c.Reason, c.Source)
	}
	ok := false
	for _, l := range c.Lines {
		if res.Err.Line >= l && res.Err.Line <= l+8 {
			ok = true
		}
	}
	if !ok {
		return vlib.Failf("allOf-fault-mislocated: "+f[0], "%s: diagnostic %q at line %d, the inheriting directive is at line %v\n--- source:\n%s", c.Reason, res.Err.Msg, res.Err.Line, c.Lines, c.Source)
	}
	return nil
}

func TestC12(t *testing.T) {
	h := vlib.New(t, "C12", "exploration",
		"generated documents with boosted inheritance (chains, two bases, bases shared by several inheritors, allOf on nested objects and on array items) used from TYPE, Request, responses, Headers, Query, Params / Result, each in several declaration orders (all permutations when <= the tier's bound); oracle: reference full(T) = bases' full lists in order then own properties, every inherited property marked with the directly named base, exactly once, base types left as declared, identical in every order; negative cases (overriding a direct / transitive / nested inherited property, base that is a scalar / array / regex / any type, undefined base) x host x declaration before / after use must be rejected inside the inheriting directive; non-trivial = chain depth >= 2, several bases or a base shared by >= 2 inheritors; distinct by (document, orders)",
		"diamonds (one key reachable through two bases) are not generated: the schema library rejects most of them and the statement does not say which duplicate survives", "allOf inside Path bodies is not generated")
	req := []string{"accepted", "chain-depth>=2", "several-bases", "base-shared", "allOf-in:TYPE", "allOf-in:Request", "allOf-in:response", "allOf-in:Query", "allOf-in:Params"}
	for _, k := range []string{"override-direct", "override-transitive", "base-scalar", "base-array", "base-regex", "base-any", "base-undefined", "override-nested", "override-in-array-item"} {
		req = append(req, "neg:"+k)
	}
	h.Require(req...)
	maxPerms := h.Pick(6, 24)
	vlib.Rapid(h, "inheritance-graphs-in-all-orders", h.N(5000, 40000), func(t *rapid.T) c10Case {
		doc := vlib.GenDoc(t, vlib.GenOpts{Inheritance: true, MaxTypes: 7})
		_, units := doc.Blocks()
		return c10Case{Doc: doc, Perms: genPerms(t, len(units), maxPerms)}
	}, c12Check)
	vlib.Rapid(h, "negative-inheritance", h.N(6000, 200000), genAllOfNegative, c12NegCheck)
}
