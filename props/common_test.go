package props

import (
	"strconv"

	"pgregory.net/rapid"

	"verif/vlib"
)

func itoa(i int) string { return strconv.Itoa(i) }

// genAnyDocProject draws a generated document (valid or with faults) as a project.
func genAnyDocProject(t *rapid.T) vlib.Project {
	return vlib.Single(vlib.GenMacroDoc(t))
}
