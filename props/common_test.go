package props

import (
	"os"
	"strconv"

	"pgregory.net/rapid"

	"verif/vlib"
)

func itoa(i int) string { return strconv.Itoa(i) }

// genAnyDocProject draws a generated document (valid or with faults) as a project.
func genAnyDocProject(t *rapid.T) vlib.Project { return genAnyDocProjectImpl(t) }

var genAnyDocProjectImpl = func(t *rapid.T) vlib.Project { return vlib.Single(vlib.GenMacroDoc(t)) }

// c19Docs is the document part of C19 (filled in with the document model).
var c19Docs = func(h *vlib.H) {}

// c08Docs is the document part of C08 (filled in with the document model).
var c08Docs = func(h *vlib.H) {}

// injectAnyFault puts one fault into a valid document (filled in with C11).
var injectAnyFault = func(t *rapid.T, doc *vlib.Doc) *vlib.Doc { return doc }

func removeAll(dir string) { _ = os.RemoveAll(dir) }
