package props

import (
	"strings"
	"testing"

	"pgregory.net/rapid"

	"verif/vlib"
)

// totality is the C01 oracle for one run of one project.
func totality(p vlib.Project, res vlib.Result) *vlib.Failure {
	if res.Panic != "" {
		return vlib.Failf("panic: "+res.Panic, "stage %s panicked: %s\n%s", res.PanicStage, res.Panic, firstLines(res.PanicStack, 30))
	}
	if res.OpenErr != "" {
		if _, ok := p.Files[p.Root]; ok {
			return vlib.Failf("open-error", "root file exists but NewJapi failed: %s", res.OpenErr)
		}
		return nil
	}
	if res.Err != nil {
		if strings.Contains(res.Err.Full, "runtime error:") {
			inInput := false
			for _, c := range p.Files {
				if strings.Contains(c, "runtime error") {
					inInput = true
				}
			}
			if !inInput {
				key := "swallowed: " + swallowedKey(res.Err.Msg)
				if o := vlib.LastFaultOrigin(); o != "" && o != "?" {
					key += " @ " + o
				}
				return vlib.Failf(key, "a Go runtime fault is reported as a diagnostic: %q", res.Err.Full)
			}
		}
		return nil
	}
	if res.ToJSONErr != "" {
		tail := res.ToJSONErr
		if i := strings.LastIndex(tail, ": "); i >= 0 {
			tail = tail[i+2:]
		}
		if strings.Contains(tail, "exceeded max depth") {
			tail = "exceeded max depth"
		}
		return vlib.Failf("tojson-error: "+normDigits(tail), "accepted project does not serialise: %s", res.ToJSONErr)
	}
	return nil
}

func swallowedKey(msg string) string {
	i := strings.Index(msg, "runtime error:")
	k := msg[i:]
	if len(k) > 60 {
		k = k[:60]
	}
	return normDigits(k)
}

func normDigits(s string) string {
	var sb strings.Builder
	prev := false
	for _, c := range s {
		if c >= '0' && c <= '9' {
			if !prev {
				sb.WriteByte('N')
			}
			prev = true
			continue
		}
		prev = false
		sb.WriteRune(c)
	}
	return sb.String()
}

func firstLines(s string, n int) string {
	ll := strings.Split(s, "\n")
	if len(ll) > n {
		ll = ll[:n]
	}
	return strings.Join(ll, "\n")
}

// reachedCompile: the run got past scanning (at least one directive parsed and
// no scanner-level rejection), the C01 non-triviality rule for byte inputs.
func reachedCompile(src string, res vlib.Result) bool {
	if res.Accepted {
		return true
	}
	if res.Err == nil {
		return false
	}
	m := res.Err.Msg
	return !strings.Contains(m, "invalid character") && !strings.Contains(m, "unknown directive") && len(strings.Fields(src)) >= 2
}

func c01Single(src string, info *vlib.Info) *vlib.Failure {
	p := vlib.Single(src)
	res := vlib.Run(p)
	info.NonTrivial = reachedCompile(src, res)
	classifyVerdict(info, res)
	if len(src) > 300 {
		info.Sample = src[:300] + "...(" + itoa(len(src)) + " bytes)"
	}
	return totality(p, res)
}

func classifyVerdict(info *vlib.Info, res vlib.Result) {
	switch {
	case res.Accepted:
		info.Class("accepted")
	case res.Err != nil:
		info.Class("rejected")
	}
}

func TestC01(t *testing.T) {
	h := vlib.New(t, "C01", "exploration",
		"byte strings (token sequences enumerated after canonical prefixes, rapid token soups, mutated fixtures, hostile constants, size stress), multi-file include graphs, macro/paste graphs, option sets, generated documents with faults; a case is non-trivial when the run got past scanning (accepted, or rejected by a stage after the scanner) or exercised an include / macro graph / option set; distinct by input hash",
		"hang limit 30 s per case (typical cost < 5 ms)", "stack limit lowered to 256 MB so runaway recursion dies quickly", "process-fatal outcomes are recovered from the per-shard journal by the driver")
	defer vlib.CleanupScratch()
	vlib.EnableFaultLog()
	h.Require("accepted", "rejected", "include-depth>=1", "macro-cycle")
	// failing inputs of the native fuzz arm (thorough tier, driver-run) replay through this campaign
	vlib.Enum(h, "native-fuzz", false, func(func(string) bool) {}, c01Single)

	runRegression(h, c01Regression)
	vlib.Enum(h, "hostile-constants", false, func(yield func(string) bool) {
		for i, s := range vlib.HostileConstants {
			if h.Mine(i) && !yield(s) {
				return
			}
		}
	}, c01Single)

	vlib.Enum(h, "size-stress", false, func(yield func(string) bool) {
		for i, s := range vlib.SizeStress(h.Thorough()) {
			if h.Mine(i) && !yield(s) {
				return
			}
		}
	}, func(s string, info *vlib.Info) *vlib.Failure {
		f := c01Single(s, info)
		info.NonTrivial = true
		info.Class("size-stress")
		return f
	})

	// token sequences: exhaustive up to the tier's length after every prefix
	maxLen := h.Pick(2, 2)
	for _, joiner := range []string{" ", ""} {
		vlib.Enum(h, "tokenseq-exhaustive-join"+map[string]string{" ": "space", "": "none"}[joiner], true, func(yield func(string) bool) {
			eachTokenSeqJoin(vlib.Prefixes, vlib.Sigma, maxLen, joiner, h.Mine, yield)
		}, c01Single)
	}
	vlib.Enum(h, "tokenseq-small-alphabet", true, func(yield func(string) bool) {
		eachTokenSeqJoin(vlib.Prefixes, vlib.SigmaSmall, h.Pick(2, 3), " ", h.Mine, yield)
	}, c01Single)

	vlib.Rapid(h, "token-soup", h.N(20000, 1500000), func(t *rapid.T) string {
		pre := rapid.SampledFrom(vlib.Prefixes).Draw(t, "prefix")
		return pre + vlib.GenTokenSoup(t, 14)
	}, c01Single)

	vlib.Enum(h, "long-lines-exhaustive", true, func(yield func(string) bool) {
		vlib.EachLongLine(h.Mine, yield)
	}, func(src string, info *vlib.Info) *vlib.Failure {
		f := c01Single(src, info)
		info.Class("long-line")
		return f
	})
	vlib.Rapid(h, "schema-rule-soup", h.N(20000, 1000000), vlib.GenRuleSoup, c01Single)
	vlib.Rapid(h, "fixture-mutation", h.N(20000, 1500000), vlib.GenMutation, c01Single)

	vlib.Rapid(h, "include-projects", h.N(4000, 200000), vlib.GenIncludeProject, func(p vlib.Project, info *vlib.Info) *vlib.Failure {
		res := vlib.Run(p)
		info.NonTrivial = true
		classifyVerdict(info, res)
		if strings.Contains(p.Files[p.Root], "INCLUDE a.jst") || strings.Contains(p.Files[p.Root], "INCLUDE b.jst") {
			info.Class("include-depth>=1")
		}
		if len(p.Banned) > 0 {
			info.Class("option:banned")
		}
		return totality(p, res)
	})

	vlib.Rapid(h, "macro-graphs", h.N(6000, 300000), vlib.GenMacroDoc, func(src string, info *vlib.Info) *vlib.Failure {
		f := c01Single(src, info)
		info.NonTrivial = true
		if macroGraphHasCycle(src) {
			info.Class("macro-cycle")
		}
		return f
	})

	vlib.Rapid(h, "option-sets", h.N(2000, 100000), func(t *rapid.T) vlib.Project {
		cc := vlib.Corpus()
		p := vlib.Single(cc[rapid.IntRange(0, len(cc)-1).Draw(t, "file")].Content)
		p.Banned = rapid.SliceOfNDistinct(rapid.SampledFrom(vlib.KindNames()), 1, 6, rapid.ID[string]).Draw(t, "banned")
		p.NoFixedSeed = rapid.Bool().Draw(t, "noseed")
		return p
	}, func(p vlib.Project, info *vlib.Info) *vlib.Failure {
		res := vlib.Run(p)
		info.NonTrivial = true
		info.Class("option:banned")
		classifyVerdict(info, res)
		return totality(p, res)
	})

	vlib.Rapid(h, "generated-docs-with-faults", h.N(4000, 300000), genAnyDocProject, func(p vlib.Project, info *vlib.Info) *vlib.Failure {
		res := vlib.Run(p)
		info.NonTrivial = true
		classifyVerdict(info, res)
		return totality(p, res)
	})
}

// macroGraphHasCycle parses the MACRO/PASTE structure of a GenMacroDoc text
// and says whether the paste graph has a cycle (class label only).
func macroGraphHasCycle(src string) bool {
	edges := map[string][]string{}
	cur := ""
	for _, l := range strings.Split(src, "\n") {
		f := strings.Fields(l)
		switch {
		case len(f) == 2 && f[0] == "MACRO":
			cur = f[1]
		case len(f) == 1 && f[0] == ")":
			cur = ""
		case len(f) == 2 && f[0] == "PASTE" && cur != "":
			edges[cur] = append(edges[cur], f[1])
		}
	}
	state := map[string]int{}
	var dfs func(n string) bool
	dfs = func(n string) bool {
		switch state[n] {
		case 1:
			return true
		case 2:
			return false
		}
		state[n] = 1
		for _, m := range edges[n] {
			if dfs(m) {
				return true
			}
		}
		state[n] = 2
		return false
	}
	for n := range edges {
		if dfs(n) {
			return true
		}
	}
	return false
}

func eachTokenSeqJoin(prefixes, sigma []string, maxLen int, joiner string, mine func(int) bool, yield func(string) bool) {
	idx := 0
	for l := 0; l <= maxLen; l++ {
		if l == 0 && joiner == "" {
			continue // the bare prefixes are covered by the other joiner
		}
		for _, p := range prefixes {
			seq := make([]int, l)
			for {
				if mine(idx) {
					var sb strings.Builder
					sb.WriteString(p)
					for k, ti := range seq {
						if k > 0 {
							sb.WriteString(joiner)
						}
						sb.WriteString(sigma[ti])
					}
					if !yield(sb.String()) {
						return
					}
				}
				idx++
				k := l - 1
				for k >= 0 {
					seq[k]++
					if seq[k] < len(sigma) {
						break
					}
					seq[k] = 0
					k--
				}
				if k < 0 {
					break
				}
			}
		}
	}
}
