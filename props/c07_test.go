package props

import (
	"fmt"
	"strings"
	"testing"

	"pgregory.net/rapid"

	"verif/vlib"
)

type c07Case struct {
	Doc *vlib.Doc `json:"doc"`
	// NL: line-end convention of both renderings ("" = LF).
	NL string `json:"nl,omitempty"`
	// Faulty: the document holds an injected fault (the reference inliner may
	// then have nothing to say).
	Faulty bool `json:"faulty,omitempty"`
}

func c07Check(c c07Case, info *vlib.Info) *vlib.Failure {
	doc := c.Doc
	nMacros, nPastes, maxBody := 0, 0, 0
	doc.Walk(func(d, _ *vlib.Dir) {
		if d.Kw == "MACRO" {
			nMacros++
			n := 0
			var cnt func(x *vlib.Dir)
			cnt = func(x *vlib.Dir) {
				n++
				for _, ch := range x.Children {
					cnt(ch)
				}
			}
			for _, ch := range d.Children {
				cnt(ch)
			}
			if n > maxBody {
				maxBody = n
			}
		}
		if d.Kw == "PASTE" {
			nPastes++
		}
	})
	reach := vlib.ReachableMacros(doc)
	info.NonTrivial = len(reach) >= 1 && maxBody >= 2
	if nMacros > len(reach) {
		info.Class("has-unused-macro")
	}
	nested := false
	doc.Walk(func(d, p *vlib.Dir) {
		if d.Kw == "PASTE" {
			for q := p; q != nil; q = parentIn(doc, q) {
				if q.Kw == "MACRO" {
					nested = true
				}
			}
		}
	})
	if nested {
		info.Class("macro-pastes-macro")
	}
	src := vlib.Render(doc, vlib.Style{NL: c.NL}).Text
	res := vlib.Run(vlib.Single(src))
	if res.Panic != "" {
		return vlib.Failf("panic: "+res.Panic, "%s\n--- source:\n%s", res.Panic, src)
	}
	if !res.Accepted {
		info.Class("macro-doc-rejected")
		return nil // the relation speaks about accepted macro documents (C04 checks that valid ones are accepted)
	}
	info.Class("macro-doc-accepted")
	info.Class("nl:" + map[string]string{"": "LF", "\r\n": "CRLF", "\r": "CR"}[c.NL])
	inl, prob := vlib.Inline(doc)
	if prob != "" && c.Faulty {
		info.Class("faulty-doc-not-inlinable")
		return nil
	}
	if prob != "" {
		return vlib.Failf("harness: inline", "reference inliner refuses an accepted document: %s\n%s", prob, src)
	}
	if !inl.FixContexts() {
		info.Class("inlined-text-not-expressible")
		return nil
	}
	src2 := vlib.Render(inl, vlib.Style{NL: c.NL}).Text
	res2 := vlib.Run(vlib.Single(src2))
	if f := sameOutcome("inline", src, src2, res, res2, vlib.RegexTypeReferenced(doc)); f != nil {
		return f
	}
	// deleting the macros nothing pastes changes nothing
	if nMacros > len(reach) {
		d3 := doc.Copy()
		var top []*vlib.Dir
		for _, d := range d3.Top {
			if d.Kw == "MACRO" && len(d.Params) > 0 && !reach[d.Params[0]] {
				continue
			}
			top = append(top, d)
		}
		d3.Top = top
		if d3.FixContexts() {
			src3 := vlib.Render(d3, vlib.Style{NL: c.NL}).Text
			res3 := vlib.Run(vlib.Single(src3))
			if f := sameOutcome("drop-unused-macro", src, src3, res, res3, vlib.RegexTypeReferenced(doc)); f != nil {
				return f
			}
		}
	}
	return nil
}

func parentIn(doc *vlib.Doc, d *vlib.Dir) *vlib.Dir {
	var res *vlib.Dir
	doc.Walk(func(x, p *vlib.Dir) {
		if x == d {
			res = p
		}
	})
	return res
}

// c07Neg is a negative macro document in text form with the reason it must be rejected.
type c07Neg struct {
	Source string `json:"source"`
	Reason string `json:"reason"`
}

// genPasteGraph draws n macros whose bodies paste each other along a drawn
// edge set; it reports whether the graph has a cycle, an undefined target or a
// duplicate name.
func genPasteGraph(t *rapid.T) c07Neg {
	n := rapid.IntRange(1, 8).Draw(t, "nmacros")
	var sb strings.Builder
	sb.WriteString("JSIGHT 0.3\n")
	edges := make([][]int, n+1)
	reason := ""
	kind := rapid.SampledFrom([]string{"cycle", "cycle", "cycle", "undefined", "duplicate", "paste-without-name", "macro-without-name", "macro-annotation", "empty-macro"}).Draw(t, "kind")
	// a base DAG: i -> j only for j > i
	for i := 1; i <= n; i++ {
		for j := i + 1; j <= n; j++ {
			if rapid.IntRange(0, 3).Draw(t, "edge") == 0 {
				edges[i] = append(edges[i], j)
			}
		}
	}
	switch kind {
	case "cycle":
		// close a cycle of drawn length: a chain i1 -> i2 -> ... -> ik -> i1
		k := rapid.IntRange(1, n).Draw(t, "cyclelen")
		perm := rapid.Permutation(seq(1, n)).Draw(t, "perm")[:k]
		for i := 0; i < k; i++ {
			edges[perm[i]] = append(edges[perm[i]], perm[(i+1)%k])
		}
		reason = fmt.Sprintf("paste cycle of length %d", k)
	case "undefined":
		i := rapid.IntRange(1, n).Draw(t, "from")
		edges[i] = append(edges[i], 99)
		reason = "PASTE of an undefined macro"
	}
	topPaste := rapid.IntRange(0, 2).Draw(t, "topPaste") // 0: no top-level paste, 1: paste macro 1, 2: paste inside a method
	order := rapid.Permutation(seq(1, n)).Draw(t, "order")
	emitMacro := func(i int, name string) {
		fmt.Fprintf(&sb, "MACRO %s\n(\n", name)
		if len(edges[i]) == 0 || rapid.Bool().Draw(t, "filler") {
			fmt.Fprintf(&sb, "  4%02d any\n", i)
		}
		for _, j := range edges[i] {
			fmt.Fprintf(&sb, "  PASTE @m%d\n", j)
		}
		sb.WriteString(")\n")
	}
	for _, i := range order {
		emitMacro(i, fmt.Sprintf("@m%d", i))
	}
	switch kind {
	case "duplicate":
		i := rapid.IntRange(1, n).Draw(t, "dup")
		emitMacro(0, fmt.Sprintf("@m%d", i))
		reason = "two macros with one name"
		topPaste = 2
	case "paste-without-name":
		sb.WriteString("GET /x\n  PASTE\n  200 any\n")
		reason = "PASTE without a name"
	case "macro-without-name":
		sb.WriteString("MACRO\n(\n  200 any\n)\n")
		reason = "MACRO without a name"
	case "macro-annotation":
		sb.WriteString("MACRO @zz // note\n(\n  200 any\n)\n")
		reason = "MACRO with an annotation"
	case "empty-macro":
		reason = "empty MACRO"
	case "undefined":
		topPaste = 2 // make sure the dangling PASTE is reached
	}
	switch topPaste {
	case 1:
		sb.WriteString("GET /a\n  PASTE @m1\n")
	case 2:
		sb.WriteString("GET /a\n")
		for i := 1; i <= n; i++ {
			fmt.Fprintf(&sb, "  PASTE @m%d\n", i)
		}
	}
	if kind == "empty-macro" {
		// last in the document: a MACRO without parentheses adopts what follows
		sb.WriteString("MACRO @zz\n")
	}
	return c07Neg{Source: sb.String(), Reason: reason}
}

func seq(a, b int) []int {
	var out []int
	for i := a; i <= b; i++ {
		out = append(out, i)
	}
	return out
}

func c07NegCheck(c c07Neg, info *vlib.Info) *vlib.Failure {
	info.NonTrivial = true
	info.Class("neg:" + strings.Fields(c.Reason)[0] + "-" + strings.Fields(c.Reason)[1])
	if strings.HasPrefix(c.Reason, "paste cycle of length") && !strings.HasSuffix(c.Reason, " 1") {
		info.Class("neg:cycle-length>=2")
	}
	res := vlib.Run(vlib.Single(c.Source))
	if res.Panic != "" {
		return vlib.Failf("panic: "+res.Panic, "%s (%s)\n--- source:\n%s", res.Panic, c.Reason, c.Source)
	}
	if res.Accepted {
		return vlib.Failf("macro-fault-accepted: "+strings.Join(strings.Fields(c.Reason)[:2], " "), "accepted although: %s\n--- source:\n%s", c.Reason, c.Source)
	}
	if res.Err == nil {
		return vlib.Failf("no-diagnostic", "neither accepted nor a diagnostic\n%s", c.Source)
	}
	return nil
}

func TestC07(t *testing.T) {
	h := vlib.New(t, "C07", "exploration",
		"generated documents with 0-4 macros of seven body kinds (responses, response children, INFO / SERVER / method / URL children, whole top-level blocks), macros pasting macros, pastes at every admissible position, used and unused macros, definitions before and after use, rendered with LF, CRLF or CR line ends (both documents alike); oracle: accepted macro document => the inlined document (reference inliner) is accepted with the byte-identical catalog, and dropping unused macros changes nothing; negative paste graphs over 1-8 macros (cycles of drawn length reachable or not from a top-level PASTE, undefined and duplicate names, nameless PASTE/MACRO, annotated and empty MACRO) must be rejected with a diagnostic within the hang limit; non-trivial = a pasted macro with >= 2 directives in its body, or a negative graph; distinct by document",
		"cycle cases run under the driver's hang limit and crash journal (a stack overflow kills the worker and is recovered)")
	h.Require("nl:LF", "nl:CRLF", "nl:CR", "macro-doc-accepted", "has-unused-macro", "macro-pastes-macro", "neg:paste-cycle", "neg:cycle-length>=2", "neg:PASTE-of", "neg:two-macros", "undefined-paste-without-any-macro")
	runPairRegression(h, c07Pairs)
	vlib.Rapid(h, "inline-equivalence", h.N(10000, 400000), func(t *rapid.T) c07Case {
		return c07Case{Doc: vlib.GenDoc(t, vlib.GenOpts{Macros: true, TopPasteAnywhere: true}),
			NL: rapid.SampledFrom([]string{"", "", "\r\n", "\r"}).Draw(t, "nl")}
	}, c07Check)
	// documents with one injected fault: the library refuses them, and then the
	// relation says nothing - but if a macro document with a fault is accepted
	// (a check that only looks at the definition, not at each paste), its
	// inlined form must be accepted too with the same catalog
	vlib.Rapid(h, "inline-equivalence-faulty-docs", h.N(6000, 200000), func(t *rapid.T) c07Case {
		base := vlib.GenDoc(t, vlib.GenOpts{Macros: true, TopPasteAnywhere: true})
		doc := base
		if rapid.Bool().Draw(t, "throughPaste") {
			if d2, _, ok := vlib.InjectFaultOfKind(t, base, "dup-through-second-PASTE"); ok {
				doc = d2
			}
		} else if d2, _, ok := vlib.InjectFault(t, base); ok {
			doc = d2
		}
		return c07Case{Doc: doc, Faulty: true}
	}, c07Check)

	// PASTE of an undefined macro at any admissible position of a generated
	// document, with and without macros elsewhere in it
	vlib.Rapid(h, "undefined-paste-in-generated-docs", h.N(4000, 150000), func(t *rapid.T) faultCase {
		base := vlib.GenDoc(t, vlib.GenOpts{Macros: rapid.IntRange(0, 2).Draw(t, "macros") == 0})
		doc, fault, ok := vlib.InjectFaultOfKind(t, base, "undefined-macro")
		return faultCase{Doc: doc, Fault: fault, OK: ok}
	}, func(c faultCase, info *vlib.Info) *vlib.Failure {
		if !c.OK || c.Fault.Route == "in-unused-macro" {
			return nil // a macro that is never pasted contributes nothing
		}
		hasMacro := false
		c.Doc.Walk(func(d, _ *vlib.Dir) {
			if d.Kw == "MACRO" {
				hasMacro = true
			}
		})
		info.NonTrivial = true
		info.Class("neg:PASTE-of")
		if !hasMacro {
			info.Class("undefined-paste-without-any-macro")
		}
		src := vlib.Render(c.Doc, vlib.Style{}).Text
		res := vlib.Run(vlib.Single(src))
		if res.Panic != "" {
			return nil // C01
		}
		if res.Accepted {
			return vlib.Failf("negative-accepted: PASTE of an undefined macro", "accepted although it pastes an undefined macro\n--- source:\n%s", src)
		}
		return nil
	})
	vlib.Rapid(h, "negative-paste-graphs", h.N(6000, 200000), genPasteGraph, c07NegCheck)
}
