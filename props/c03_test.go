package props

import (
	"bufio"
	"encoding/json"
	"fmt"
	"os"
	"os/exec"
	"strings"
	"sync"
	"testing"

	"pgregory.net/rapid"

	"verif/vlib"
)

// resultKey is everything the property says must be the same.
func resultKey(r vlib.Result) string {
	if r.Panic != "" {
		return "PANIC " + r.Panic
	}
	if r.Err != nil {
		return fmt.Sprintf("ERR %q full=%q idx=%d line=%d quote=%q file=%s", r.Err.Msg, r.Err.Full, r.Err.Index, r.Err.Line, r.Err.Quote, r.Err.File)
	}
	return "OK " + r.JSON + "\n" + r.JSONIndent
}

// diffKind classifies the difference between two results of one project.
func diffKind(p vlib.Project, a, b vlib.Result) (key, detail string) {
	if resultKey(a) == resultKey(b) {
		return "", ""
	}
	if a.Accepted != b.Accepted {
		return "nondeterministic: verdict", fmt.Sprintf("accepted %v vs %v (%s / %s)", a.Accepted, b.Accepted, errMsg(a), errMsg(b))
	}
	if a.Accepted {
		regex := false
		for _, c := range p.Files {
			if strings.Contains(c, "regex") {
				regex = true
			}
		}
		if regex && vlib.MaskExamples(a.JSON) == vlib.MaskExamples(b.JSON) {
			return vlib.KeyRegexExample, firstDiff(a.JSON, b.JSON)
		}
		return "nondeterministic: catalog", firstDiff(a.JSON, b.JSON)
	}
	if a.Err.Msg != b.Err.Msg {
		return "nondeterministic: diagnostic-message", fmt.Sprintf("%q vs %q", a.Err.Msg, b.Err.Msg)
	}
	return "nondeterministic: diagnostic-location", fmt.Sprintf("%s vs %s", resultKey(a), resultKey(b))
}

func normMsgKey(s string) string {
	f := strings.Fields(normDigits(s))
	if len(f) > 5 {
		f = f[:5]
	}
	return strings.Join(f, " ")
}

var c03Repeats = 8

func c03Check(p vlib.Project, info *vlib.Info) *vlib.Failure {
	dir := ""
	if len(p.Files) > 1 || strings.Contains(p.Files[p.Root], "INCLUDE") {
		dir = vlib.Materialise(p)
		defer removeAll(dir)
	}
	first := vlib.RunIn(p, dir)
	if first.Accepted {
		info.Class("accepted")
	} else if first.Err != nil {
		info.Class("rejected")
	}
	src := p.Files[p.Root]
	if len(src) > 1200 {
		info.Sample = map[string]any{"root": src[:1200] + "..."}
	}
	for i := 1; i < c03Repeats; i++ {
		again := vlib.RunIn(p, dir)
		if key, detail := diffKind(p, first, again); key != "" {
			if strings.HasPrefix(key, "nondeterministic: diagnostic") && first.Err != nil {
				key += ": " + normMsgKey(first.Err.Msg)
				if hasRecursiveTypes(src) {
					key = keyF27 // known: the schema library reports through a type picked in map order
				}
			}
			return vlib.Failf(key, "run 1 and run %d of the same project differ: %s\n--- root file:\n%s", i+1, detail, vlib.StripCR(trunc(src, 3000)))
		}
	}
	return nil
}

// genMultiFault draws a document with two or three simultaneous faults.
func genMultiFault(t *rapid.T) vlib.Project {
	doc := vlib.GenDoc(t, vlib.GenOpts{Macros: rapid.Bool().Draw(t, "macros"), PathHeavy: rapid.Bool().Draw(t, "paths")})
	n := rapid.IntRange(2, 3).Draw(t, "nfaults")
	for i := 0; i < n; i++ {
		switch rapid.IntRange(0, 3).Draw(t, "faultSource") {
		case 0:
			if d2, _, ok := vlib.InjectSchemaConfusion(t, doc); ok {
				doc = d2
			}
		default:
			if d2, _, ok := vlib.InjectFault(t, doc); ok {
				doc = d2
			}
		}
	}
	return vlib.Single(vlib.Render(doc, vlib.Style{}).Text)
}

// multiFaultTemplates: documents with several faults of the kinds that are
// routed through hashed collections inside the library.
func genHashedCollections(t *rapid.T) vlib.Project {
	var sb strings.Builder
	sb.WriteString("JSIGHT 0.3\n")
	k := rapid.IntRange(2, 5).Draw(t, "k")
	switch rapid.IntRange(0, 10).Draw(t, "template") {
	case 0: // several self-recursive / mutually recursive macros
		for i := 0; i < k; i++ {
			fmt.Fprintf(&sb, "MACRO @m%d\n(\n  PASTE @m%d\n)\n", i, (i+rapid.IntRange(0, 1).Draw(t, "next"))%k)
		}
	case 1: // several unused Path properties
		sb.WriteString("GET /a/{id}\n  Path\n  {\n    \"id\": 1")
		for i := 0; i < k; i++ {
			fmt.Fprintf(&sb, ",\n    \"unused%d\": %d", i, i)
		}
		sb.WriteString("\n  }\n  200 any\n")
	case 2: // several undefined types in one schema and across schemas
		sb.WriteString("TYPE @t\n{\n")
		for i := 0; i < k; i++ {
			fmt.Fprintf(&sb, "  \"k%d\": @undef%d,\n", i, i)
		}
		sb.WriteString("  \"z\": 1\n}\nTYPE @u\n{\"a\": @undefA, \"b\": @undefB}\n")
	case 3: // several enums with bad bodies / undefined enum rules
		for i := 0; i < k; i++ {
			fmt.Fprintf(&sb, "ENUM @e%d\n[%d, %d]\n", i, i, i)
		}
		sb.WriteString("TYPE @t\n{\n  \"a\": 1, // {enum: @nosuch1}\n  \"b\": 2 // {enum: @nosuch2}\n}\n")
	case 4: // several duplicated path parameters / similar paths
		sb.WriteString("GET /a/{x}/{y}/b/{x}/{y}\n  200 any\nGET /c/{p}/d\n  200 any\nGET /c/{q}/d\n  200 any\n")
	case 5: // many entries in every collection, accepted
		for i := 0; i < k; i++ {
			fmt.Fprintf(&sb, "TYPE @t%d\n{\"k%d\": %d}\nENUM @e%d\n[\"v%d\"]\nTAG @g%d\nSERVER @s%d\n  BaseUrl \"http://h%d/\"\nMACRO @m%d\n(\n  40%d any\n)\n", i, i, i, i, i, i, i, i, i, i%10)
		}
		for i := 0; i < k; i++ {
			fmt.Fprintf(&sb, "URL /p%d/{a}/{b}\n  Path\n  {\"a\": 1, \"b\": 2}\n  GET\n    Tags @g%d\n    PASTE @m%d\n  POST\n    200 @t%d\nURL /r%d\n  Protocol json-rpc-2.0\n  Method m%d\n    Params\n    {\"e\": \"v%d\" // {enum: @e%d}\n    }\n", i, i, i, i, i, i, i, i)
		}
	case 6: // regex schemas (example generator) without user-type references
		for i := 0; i < k; i++ {
			fmt.Fprintf(&sb, "GET /x%d\n  200 regex\n  /[a-z]{5}[0-9]{3}x%d/\n", i, i)
		}
	case 8, 9: // one Path directive repeats several parameters an earlier one described
		names := []string{"x", "y", "z", "w", "v"}[:k]
		sb.WriteString("URL /a")
		for _, n := range names {
			sb.WriteString("/{" + n + "}")
		}
		body := func(order []int) string {
			var ps []string
			for _, i := range order {
				ps = append(ps, fmt.Sprintf("\"%s\": %d", names[i], i))
			}
			return "{" + strings.Join(ps, ", ") + "}"
		}
		fwd := make([]int, k)
		for i := range fwd {
			fwd[i] = i
		}
		second := rapid.Permutation(fwd).Draw(t, "secondOrder")
		sb.WriteString("\n  Path\n  " + body(fwd) + "\n")
		if rapid.Bool().Draw(t, "secondAtMethod") {
			sb.WriteString("  GET\n    Path\n    " + body(second) + "\n    200 any\n")
		} else {
			sb.WriteString("  Path\n  " + body(second) + "\n  GET\n    200 any\n")
		}
	default: // several types each with its own body error
		for i := 0; i < k; i++ {
			fmt.Fprintf(&sb, "TYPE @b%d\n{\"k\": @missing%d}\n", i, i)
		}
	}
	return vlib.Single(sb.String())
}

// genSiblings draws two projects whose schema bodies are byte-identical while
// a declaration the bodies depend on (an enum's values, a type's body, a
// type's presence) differs: anything the library remembers about a body from
// one project must not reach the next.
func genSiblings(t *rapid.T) []vlib.Project {
	n := rapid.IntRange(0, 999).Draw(t, "sibN")
	var declA, declB, use string
	switch rapid.IntRange(0, 3).Draw(t, "sibKind") {
	case 0: // an enum's values; no TYPE in the project
		declA = fmt.Sprintf("ENUM @e%d\n[\"a%d\", \"b\"]\n", n, n)
		declB = fmt.Sprintf("ENUM @e%d\n[\"c%d\", \"d\"]\n", n, n)
		use = fmt.Sprintf("{\n  \"k%d\": \"a%d\" // {enum: @e%d}\n}", n, n, n)
	case 1: // a type's body
		declA = fmt.Sprintf("TYPE @t%d\n12\n", n)
		declB = fmt.Sprintf("TYPE @t%d\n\"text\"\n", n)
		use = fmt.Sprintf("{\n  \"k%d\": 5 // {type: \"@t%d\"}\n}", n, n)
	case 2: // a type's presence
		declA = fmt.Sprintf("TYPE @t%d\n{\"a\": 1}\n", n)
		declB = ""
		use = fmt.Sprintf("{\n  \"k%d\": @t%d\n}", n, n)
	default: // an enum used inside a type
		declA = fmt.Sprintf("ENUM @e%d\n[1, 2, %d]\nTYPE @t%d\n{\"v\": 2 // {enum: @e%d}\n}\n", n, n+3, n, n)
		declB = fmt.Sprintf("ENUM @e%d\n[7, 8, %d]\nTYPE @t%d\n{\"v\": 2 // {enum: @e%d}\n}\n", n, n+9, n, n)
		use = fmt.Sprintf("{\n  \"k%d\": @t%d\n}", n, n)
	}
	ind := func(s string) string { return "  " + strings.ReplaceAll(s, "\n", "\n  ") }
	var host string
	switch rapid.IntRange(0, 3).Draw(t, "sibHost") {
	case 0:
		host = fmt.Sprintf("GET /s%d\n  200\n%s\n", n, ind(use))
	case 1:
		host = fmt.Sprintf("POST /s%d\n  Request\n%s\n  200 any\n", n, ind(use))
	case 2:
		host = fmt.Sprintf("URL /s%d\n  Protocol json-rpc-2.0\n  Method m\n    Params\n%s\n", n, ind(ind(use)))
	default:
		host = fmt.Sprintf("TYPE @host%d\n%s\nGET /s%d\n  200 @host%d\n", n, use, n, n)
	}
	mk := func(decl string) vlib.Project {
		if rapid.Bool().Draw(t, "declFirst") {
			return vlib.Single("JSIGHT 0.3\n" + decl + host)
		}
		return vlib.Single("JSIGHT 0.3\n" + host + decl)
	}
	a, b := mk(declA), mk(declB)
	if rapid.Bool().Draw(t, "sibSwap") {
		a, b = b, a
	}
	return []vlib.Project{a, b}
}

// c03Child: when started with VERIF_C03_CHILD the test binary reads projects
// (one JSON per line) from the named file and prints one result key per line.
func c03ChildMain() {
	f, err := os.Open(os.Getenv("VERIF_C03_CHILD"))
	if err != nil {
		os.Exit(2)
	}
	sc := bufio.NewScanner(f)
	sc.Buffer(make([]byte, 1<<20), 1<<26)
	w := bufio.NewWriter(os.Stdout)
	for sc.Scan() {
		var p vlib.Project
		if json.Unmarshal(sc.Bytes(), &p) != nil {
			continue
		}
		b, _ := json.Marshal(resultKey(relResult(vlib.Run(p))))
		w.Write(b)
		w.WriteByte('\n')
	}
	w.Flush()
	vlib.CleanupScratch()
}

// relResult removes the run-specific scratch directory from messages.
func relResult(r vlib.Result) vlib.Result {
	if r.Err != nil {
		e := *r.Err
		e.Full = e.Msg + "|" + strings.Join(strings.Split(r.Err.Full, "\n")[strings.Count(r.Err.Msg, "\n")+1:], "|")
		// keep only file names of trace lines
		parts := strings.Split(e.Full, "|")
		for i := 1; i < len(parts); i++ {
			if j := strings.LastIndex(parts[i], "/p"); j >= 0 {
				if k := strings.Index(parts[i][j+1:], "/"); k >= 0 {
					parts[i] = parts[i][j+1+k+1:]
				}
			}
		}
		e.Full = strings.Join(parts, "|")
		r.Err = &e
	}
	return r
}

func TestMain(m *testing.M) {
	if os.Getenv("VERIF_C03_CHILD") != "" {
		c03ChildMain()
		return
	}
	os.Exit(m.Run())
}

func TestC03(t *testing.T) {
	h := vlib.New(t, "C03", "exploration",
		"projects with two or three simultaneous faults (injected into generated documents), templates with >= 2 entries in every internally hashed collection (recursive macros, unused Path properties, undefined types and enums, duplicated path parameters, many declarations of every kind, regex examples), generated valid documents, mutated fixtures, include projects; each run R times in one process (R = 8 quick, 24 thorough) with a fresh JApi, and twice on one JApi object (ValidateJAPI + ToJson called again), a sample (all three line-end conventions under one file name) also in two fresh processes, one of them in reverse order, and while 8 goroutines process other projects; the same caller-owned file value processed twice with the source bytes and the byte slices returned by ToJson / ToJsonIndent held and compared after later projects; oracle: identical verdict, message, Error() text, index, line, quote, file, and byte-identical ToJson / ToJsonIndent; non-trivial = rejected with >= 2 faults or accepted with >= 2 entries in a collection; distinct by project",
		"a two-way order dependence escapes R runs with probability 2^-(R-1)", "regex examples are compared only with the fixed-seed option (without it they are random by design)")
	defer vlib.CleanupScratch()
	h.Require("accepted", "rejected", "fresh-process-arm", "busy-process-arm", "reused-option-values", "caller-owned-buffers", "escape-in-quoted-parameter", "held-output", "same-object-twice")
	c03Repeats = h.Pick(8, 24)
	multi := func(p vlib.Project, info *vlib.Info) *vlib.Failure {
		f := c03Check(p, info)
		info.NonTrivial = true
		return f
	}
	vlib.Rapid(h, "hashed-collection-templates", h.N(3000, 100000), genHashedCollections, multi)
	vlib.Rapid(h, "multi-fault-documents", h.N(3000, 150000), genMultiFault, multi)
	vlib.Rapid(h, "valid-documents", h.N(1500, 60000), func(t *rapid.T) vlib.Project {
		doc := vlib.GenDoc(t, vlib.GenOpts{Macros: true, TagsHeavy: true, PathHeavy: true})
		return vlib.Single(vlib.Render(doc, genStyle(t, false)).Text)
	}, multi)
	vlib.Rapid(h, "fixture-mutation", h.N(3000, 200000), func(t *rapid.T) vlib.Project { return vlib.Single(vlib.GenMutation(t)) }, func(p vlib.Project, info *vlib.Info) *vlib.Failure {
		f := c03Check(p, info)
		info.NonTrivial = len(strings.Fields(p.Files[p.Root])) > 6
		return f
	})
	vlib.Rapid(h, "include-projects", h.N(800, 40000), vlib.GenIncludeProject, multi)

	// option values reused between runs must not carry state from run to run
	type reuseCase struct {
		A, B   string
		K1, K2 []string
	}
	kinds := vlib.KindNames()
	vlib.Rapid(h, "reused-option-values", h.N(1500, 60000), func(t *rapid.T) reuseCase {
		d1 := vlib.GenDoc(t, vlib.GenOpts{Macros: rapid.Bool().Draw(t, "m1")})
		d2 := vlib.GenDoc(t, vlib.GenOpts{})
		return reuseCase{
			A: vlib.Render(d1, vlib.Style{}).Text, B: vlib.Render(d2, vlib.Style{}).Text,
			K1: rapid.SliceOfNDistinct(rapid.SampledFrom(kinds), 1, 2, rapid.ID[string]).Draw(t, "k1"),
			K2: rapid.SliceOfNDistinct(rapid.SampledFrom(kinds), 1, 3, rapid.ID[string]).Draw(t, "k2"),
		}
	}, func(c reuseCase, info *vlib.Info) *vlib.Failure {
		info.NonTrivial = true
		info.Class("reused-option-values")
		shared := vlib.BanOption(c.K1...)
		seedOpt := vlib.Single("").NoFixedSeed
		_ = seedOpt
		fresh := resultKey(vlib.RunWithOptions(c.A, vlib.BanOption(c.K1...)))
		r1 := resultKey(vlib.RunWithOptions(c.A, shared))
		_ = vlib.RunWithOptions(c.B, shared, vlib.BanOption(c.K2...))
		_ = vlib.RunWithOptions(c.B, vlib.BanOption(c.K2...), shared)
		r3 := resultKey(vlib.RunWithOptions(c.A, shared))
		if r1 != fresh || r3 != fresh {
			if strings.Contains(c.A, "regex") && strings.HasPrefix(fresh, "OK ") && strings.HasPrefix(r1, "OK ") && strings.HasPrefix(r3, "OK ") &&
				vlib.MaskExamples(strings.SplitN(fresh[3:], "\n", 2)[0]) == vlib.MaskExamples(strings.SplitN(r1[3:], "\n", 2)[0]) &&
				vlib.MaskExamples(strings.SplitN(fresh[3:], "\n", 2)[0]) == vlib.MaskExamples(strings.SplitN(r3[3:], "\n", 2)[0]) {
				return vlib.Failf(vlib.KeyRegexExample, "results differ only in regex-derived examples")
			}
			return vlib.Failf("nondeterministic: reused option value", "the same project with the same options (ban %v) gives different results when the option value was used for other runs in between (ban %v)\n--- with a fresh option:\n%s\n--- first use:\n%s\n--- after other runs:\n%s\n--- source:\n%s", c.K1, c.K2, trunc(fresh, 300), trunc(r1, 300), trunc(r3, 300), c.A)
		}
		return nil
	})

	// the same JApi object validated and serialised twice
	sameObject := func(src string, info *vlib.Info) *vlib.Failure {
		info.NonTrivial = true
		info.Class("same-object-twice")
		r1, r2 := vlib.RunSameObjectTwice(src)
		if r1.Panic != "" {
			return nil // C01
		}
		if k1, k2 := resultKey(r1), resultKey(r2); k1 != k2 {
			return vlib.Failf("nondeterministic: second ValidateJAPI on the same object", "ValidateJAPI / ToJson called twice on one JApi give different results\n--- first:\n%s\n--- second:\n%s\n--- source:\n%s", trunc(k1, 400), trunc(k2, 400), trunc(src, 1000))
		}
		return nil
	}
	vlib.Enum(h, "same-object-regression", false, func(yield func(string) bool) {
		if h.Mine(0) {
			yield("JSIGHT 0.3\nGET /a\n  200 any\n")
		}
	}, sameObject)
	vlib.Rapid(h, "same-object-validated-twice", h.N(1500, 60000), func(t *rapid.T) string {
		if rapid.Bool().Draw(t, "faulty") {
			return genMultiFault(t).Files["root.jst"]
		}
		doc := vlib.GenDoc(t, vlib.GenOpts{Macros: rapid.Bool().Draw(t, "macros"), Inheritance: rapid.Bool().Draw(t, "inh")})
		return vlib.Render(doc, genStyle(t, false)).Text
	}, sameObject)

	// caller-owned inputs and outputs: the same file value processed twice, and
	// results held while other projects are processed
	vlib.Rapid(h, "caller-owned-buffers", h.N(1500, 60000), func(t *rapid.T) []string {
		n := rapid.IntRange(2, 4).Draw(t, "n")
		var docs []string
		for i := 0; i < n; i++ {
			switch rapid.IntRange(0, 3).Draw(t, "src") {
			case 0:
				v := rapid.StringOfN(rapid.RuneFrom([]rune(`ab\" #/`)), 1, 12, -1).Draw(t, "value")
				host := rapid.SampledFrom([]string{"Title", "Version", "BaseUrl", "Path", "Method"}).Draw(t, "host")
				src, _ := c17Doc(host, c17Quote(c17Value(host, v)), c17Value(host, v))
				docs = append(docs, src)
			case 1:
				docs = append(docs, genMultiFault(t).Files["root.jst"])
			default:
				doc := vlib.GenDoc(t, vlib.GenOpts{Macros: rapid.Bool().Draw(t, "macros")})
				docs = append(docs, vlib.Render(doc, genStyle(t, false)).Text)
			}
		}
		return docs
	}, func(docs []string, info *vlib.Info) *vlib.Failure {
		info.NonTrivial = true
		info.Class("caller-owned-buffers")
		type held struct {
			raw, rawIndent   []byte
			json, jsonIndent string
		}
		var hh []held
		for _, src := range docs {
			if strings.Contains(src, "\\\"") || strings.Contains(src, "\\\\") {
				info.Class("escape-in-quoted-parameter")
			}
			buf := []byte(src)
			f := vlib.SharedFile("root.jst", buf)
			r1, raw, rawIndent := vlib.RunShared(f)
			if r1.Panic != "" {
				return nil // C01
			}
			if string(buf) != src {
				return vlib.Failf("caller-bytes-modified", "processing a project changed the caller's source bytes\n--- given:\n%s\n--- afterwards:\n%s", trunc(src, 600), trunc(string(buf), 600))
			}
			r2, _, _ := vlib.RunShared(f)
			if k1, k2 := resultKey(r1), resultKey(r2); k1 != k2 {
				if hasRecursiveTypes(src) {
					return vlib.Failf(keyF27, "results differ between two runs of a project with recursive types")
				}
				if strings.Contains(src, "regex") && strings.HasPrefix(k1, "OK ") && strings.HasPrefix(k2, "OK ") &&
					vlib.MaskExamples(strings.SplitN(k1[3:], "\n", 2)[0]) == vlib.MaskExamples(strings.SplitN(k2[3:], "\n", 2)[0]) {
					return vlib.Failf(vlib.KeyRegexExample, "results differ only in regex-derived examples")
				}
				return vlib.Failf("nondeterministic: same file value processed twice", "the same file value processed twice gives different results\n--- first:\n%s\n--- second:\n%s\n--- source:\n%s", trunc(k1, 400), trunc(k2, 400), trunc(src, 1000))
			}
			if r1.Accepted {
				info.Class("held-output")
				hh = append(hh, held{raw, rawIndent, r1.JSON, r1.JSONIndent})
			}
			for i, x := range hh {
				if string(x.raw) != x.json || string(x.rawIndent) != x.jsonIndent {
					return vlib.Failf("held-output-overwritten", "the bytes ToJson returned for project %d changed while later projects were processed\n--- as returned:\n%s\n--- now:\n%s", i, trunc(x.json, 300), trunc(string(x.raw), 300))
				}
			}
		}
		return nil
	})

	// fresh processes and a busy process: a sample of generated projects
	nsample := h.N(200, 5000)
	vlib.Rapid(h, "fresh-and-busy-process", (nsample+49)/50, func(t *rapid.T) []vlib.Project {
		var pp []vlib.Project
		for i := 0; i < 50; i++ {
			switch rapid.IntRange(0, 3).Draw(t, "src") {
			case 3:
				pp = append(pp, genSiblings(t)...)
				i++
				continue
			case 0:
				pp = append(pp, genHashedCollections(t))
			case 1:
				pp = append(pp, genMultiFault(t))
			default:
				doc := vlib.GenDoc(t, vlib.GenOpts{Macros: true})
				pp = append(pp, vlib.Single(vlib.Render(doc, vlib.Style{}).Text))
			}
			// the same file name with another line-end convention
			switch rapid.IntRange(0, 3).Draw(t, "newline") {
			case 0:
				p := pp[len(pp)-1]
				p.Files = map[string]string{p.Root: strings.ReplaceAll(p.Files[p.Root], "\n", "\r")}
				pp[len(pp)-1] = p
			case 1:
				p := pp[len(pp)-1]
				p.Files = map[string]string{p.Root: strings.ReplaceAll(p.Files[p.Root], "\n", "\r\n")}
				pp[len(pp)-1] = p
			}
		}
		return pp
	}, func(pp []vlib.Project, info *vlib.Info) *vlib.Failure {
		info.NonTrivial = true
		info.Class("fresh-process-arm")
		info.Class("busy-process-arm")
		info.Sample = map[string]any{"projects": len(pp), "first": pp[0].Files["root.jst"]}
		solo := make([]string, len(pp))
		for i, p := range pp {
			solo[i] = resultKey(relResult(vlib.Run(p)))
		}
		// two fresh processes
		// (the second one takes the projects in reverse order, so that state
		// carried from one project to the next shows as a difference)
		for round := 0; round < 2; round++ {
			order := make([]vlib.Project, len(pp))
			for i := range pp {
				order[i] = pp[i]
				if round == 1 {
					order[i] = pp[len(pp)-1-i]
				}
			}
			keys, err := runChildProcess(order)
			if err != nil {
				return vlib.Failf("harness", "child process: %v", err)
			}
			for i := range pp {
				k := keys[i]
				if round == 1 {
					k = keys[len(pp)-1-i]
				}
				if k != solo[i] {
					return freshDiff(pp[i], solo[i], k, "a fresh process")
				}
			}
		}
		// busy process: 8 goroutines process other projects meanwhile
		stop := make(chan struct{})
		var wg sync.WaitGroup
		for g := 0; g < 8; g++ {
			wg.Add(1)
			go func(g int) {
				defer wg.Done()
				for i := g; ; i++ {
					select {
					case <-stop:
						return
					default:
					}
					vlib.Run(pp[i%len(pp)])
				}
			}(g)
		}
		var fail *vlib.Failure
		for i, p := range pp {
			if k := resultKey(relResult(vlib.Run(p))); k != solo[i] {
				fail = freshDiff(p, solo[i], k, "the same process while 8 goroutines process other projects")
				break
			}
		}
		close(stop)
		wg.Wait()
		return fail
	})
}

func freshDiff(p vlib.Project, a, b, where string) *vlib.Failure {
	key := "nondeterministic: " + where
	if hasRecursiveTypes(p.Files[p.Root]) && !strings.HasPrefix(a, "OK ") && !strings.HasPrefix(b, "OK ") {
		key = keyF27
	}
	if strings.HasPrefix(a, "OK ") && strings.HasPrefix(b, "OK ") {
		ja, jb := strings.SplitN(a[3:], "\n", 2)[0], strings.SplitN(b[3:], "\n", 2)[0]
		if vlib.MaskExamples(ja) == vlib.MaskExamples(jb) {
			if strings.Contains(p.Files[p.Root], "regex") && !strings.Contains(where, "goroutines") {
				key = vlib.KeyRegexExample
			} else {
				key = "example-strings-differ: " + where
			}
		}
	}
	return vlib.Failf(key, "the result in %s differs from the result obtained alone\n--- alone:\n%s\n--- there:\n%s\n--- root file:\n%s", where, trunc(a, 600), trunc(b, 600), trunc(p.Files[p.Root], 2000))
}

func runChildProcess(pp []vlib.Project) ([]string, error) {
	f, err := os.CreateTemp(vlib.ScratchBase(), "c03child")
	if err != nil {
		return nil, err
	}
	defer os.Remove(f.Name())
	w := bufio.NewWriter(f)
	for _, p := range pp {
		b, _ := json.Marshal(p)
		w.Write(b)
		w.WriteByte('\n')
	}
	w.Flush()
	f.Close()
	cmd := exec.Command(os.Args[0])
	cmd.Env = append(os.Environ(), "VERIF_C03_CHILD="+f.Name(), "VERIF_OUT=", "VERIF_JOURNAL=")
	out, err := cmd.Output()
	if err != nil {
		return nil, err
	}
	var keys []string
	sc := bufio.NewScanner(strings.NewReader(string(out)))
	sc.Buffer(make([]byte, 1<<20), 1<<26)
	for sc.Scan() {
		var k string
		if json.Unmarshal(sc.Bytes(), &k) == nil {
			keys = append(keys, k)
		}
	}
	if len(keys) != len(pp) {
		return nil, fmt.Errorf("child returned %d results for %d projects", len(keys), len(pp))
	}
	return keys, nil
}
