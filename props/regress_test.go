package props

import (
	"verif/vlib"
)

// regCase is a hand-written (minimised) document with the verdict the
// property demands; these are the reproducers of repaired defects and run in
// every tier (a seconds-long replay tier).
type regCase struct {
	Name   string `json:"name"`
	Source string `json:"source"`
	Expect string `json:"expect"` // "accept" | "reject"
}

func regCheck(c regCase, info *vlib.Info) *vlib.Failure {
	info.NonTrivial = true
	info.Class("regression-text")
	res := vlib.Run(vlib.Single(c.Source))
	if res.Panic != "" {
		return vlib.Failf("regression: "+c.Name, "%s panics: %s\n--- source:\n%s", c.Name, res.Panic, c.Source)
	}
	if c.Expect == "accept" && !res.Accepted {
		return vlib.Failf("regression: "+c.Name, "%s must be accepted but is rejected: %s\n--- source:\n%s", c.Name, res.Err.Msg, c.Source)
	}
	if c.Expect == "reject" && res.Accepted {
		return vlib.Failf("regression: "+c.Name, "%s must be rejected but is accepted\n--- source:\n%s", c.Name, c.Source)
	}
	return nil
}

func runRegression(h *vlib.H, cases []regCase) {
	vlib.Enum(h, "regression-texts", false, func(yield func(regCase) bool) {
		for i, c := range cases {
			if h.Mine(i) && !yield(c) {
				return
			}
		}
	}, regCheck)
}

var c11Regression = []regCase{
	{"F17-second-response-body", "JSIGHT 0.3\nGET /a\n  200\n    Body any\n    Body any\n", "reject"},
	{"F18-enum-without-name", "JSIGHT 0.3\nENUM\n[1, 2]\n", "reject"},
	{"F37-second-path-after-childs-path", "JSIGHT 0.3\nURL /a/{x}/{y}/{z}\n(\n  Path\n  {\"x\": 1}\n  GET\n  (\n    Path\n    {\"y\": 2}\n    200 any\n  )\n  Path\n  {\"z\": 3}\n)\n", "reject"},
	{"F38-url-tags-undefined-but-overridden", "JSIGHT 0.3\nTAG @g\nURL /a\n  Tags @nope\n  GET\n    Tags @g\n    200 any\n", "reject"},
	{"F38-url-tags-without-parameter", "JSIGHT 0.3\nTAG @g\nURL /a\n  Tags\n  GET\n    Tags @g\n    200 any\n", "reject"},
}

var c04Regression = []regCase{
	{"F25-enum-and-forward-type-reference", "JSIGHT 0.3\nENUM @e\n[1]\nTYPE @a\n{\"x\": @b}\nTYPE @b\n{}\n", "accept"},
	{"F15-enum-used-in-later-referenced-type", "JSIGHT 0.3\nTYPE @a\n{\"x\": @b}\nTYPE @b\n{\n  \"y\": 1 // {enum: @e}\n}\nENUM @e\n[1, 2]\n", "accept"},
}
