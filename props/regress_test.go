package props

import (
	"encoding/base64"

	"verif/vlib"
)

// regCase is a hand-written (minimised) document with the verdict the
// property demands; these are the reproducers of repaired defects and run in
// every tier (a seconds-long replay tier).
type regCase struct {
	Name   string `json:"name"`
	Source string `json:"source"`
	Expect string `json:"expect"` // "accept" | "reject"
	// SourceB64 replaces Source when the text is not valid UTF-8 (JSON replay
	// files cannot hold such bytes).
	SourceB64 string `json:"source_b64,omitempty"`
	// Banned: directive kinds banned for the run (C18).
	Banned []string `json:"banned,omitempty"`
}

func regCheck(c regCase, info *vlib.Info) *vlib.Failure {
	if c.SourceB64 != "" {
		if b, err := base64.StdEncoding.DecodeString(c.SourceB64); err == nil {
			c.Source = string(b)
		}
	}
	info.NonTrivial = true
	info.Class("regression-text")
	proj := vlib.Single(c.Source)
	proj.Banned = c.Banned
	res := vlib.Run(proj)
	if res.Panic != "" {
		return vlib.Failf("regression: "+c.Name, "%s panics: %s\n--- source:\n%s", c.Name, res.Panic, c.Source)
	}
	if c.Expect == "accept" && !res.Accepted {
		return vlib.Failf("regression: "+c.Name, "%s must be accepted but is rejected: %s\n--- source:\n%s", c.Name, res.Err.Msg, c.Source)
	}
	if c.Expect == "reject" && res.Accepted {
		return vlib.Failf("regression: "+c.Name, "%s must be rejected but is accepted\n--- source:\n%s", c.Name, c.Source)
	}
	return nil
}

func runRegression(h *vlib.H, cases []regCase) {
	vlib.Enum(h, "regression-texts", false, func(yield func(regCase) bool) {
		for i, c := range cases {
			if h.Mine(i) && !yield(c) {
				return
			}
		}
	}, regCheck)
}

var c11Regression = []regCase{
	{Name: "F17-second-response-body", Source: "JSIGHT 0.3\nGET /a\n  200\n    Body any\n    Body any\n", Expect: "reject"},
	{Name: "F18-enum-without-name", Source: "JSIGHT 0.3\nENUM\n[1, 2]\n", Expect: "reject"},
	{Name: "F37-second-path-after-childs-path", Source: "JSIGHT 0.3\nURL /a/{x}/{y}/{z}\n(\n  Path\n  {\"x\": 1}\n  GET\n  (\n    Path\n    {\"y\": 2}\n    200 any\n  )\n  Path\n  {\"z\": 3}\n)\n", Expect: "reject"},
	{Name: "F38-url-tags-undefined-but-overridden", Source: "JSIGHT 0.3\nTAG @g\nURL /a\n  Tags @nope\n  GET\n    Tags @g\n    200 any\n", Expect: "reject"},
	{Name: "F38-url-tags-without-parameter", Source: "JSIGHT 0.3\nTAG @g\nURL /a\n  Tags\n  GET\n    Tags @g\n    200 any\n", Expect: "reject"},
}

var c01Regression = []regCase{
	{Name: "F39-path-body-is-regex-type", Source: "JSIGHT 0.3\nTYPE @a regex\n/abc/\nGET /x/{id}\n  Path\n  @a\n", Expect: "reject"},
}

var c19Regression = []regCase{
	{Name: "F40-tags-names-automatic-tag", Source: "JSIGHT 0.3\nGET /cats\n  200 any\nGET /dogs\n  Tags @cats\n  200 any\n", Expect: "reject"},
	{Name: "declared-tag-named-like-path", Source: "JSIGHT 0.3\nTAG @cats\nGET /cats\n  200 any\nGET /dogs\n  Tags @cats\n  200 any\n", Expect: "accept"},
}

var c04Regression = []regCase{
	{Name: "F25-enum-and-forward-type-reference", Source: "JSIGHT 0.3\nENUM @e\n[1]\nTYPE @a\n{\"x\": @b}\nTYPE @b\n{}\n", Expect: "accept"},
	{Name: "F15-enum-used-in-later-referenced-type", Source: "JSIGHT 0.3\nTYPE @a\n{\"x\": @b}\nTYPE @b\n{\n  \"y\": 1 // {enum: @e}\n}\nENUM @e\n[1, 2]\n", Expect: "accept"},
}

// pairCase: two hand-written documents that say the same.
type pairCase struct {
	Name string `json:"name"`
	A    string `json:"a"`
	B    string `json:"b"`
	// Key: the root-cause key reported when the pair differs (default
	// "regression: <name>").
	Key string `json:"key,omitempty"`
}

func pairCheck(c pairCase, info *vlib.Info) *vlib.Failure {
	info.NonTrivial = true
	info.Class("regression-pair")
	ra, rb := vlib.Run(vlib.Single(c.A)), vlib.Run(vlib.Single(c.B))
	if f := sameOutcome("regression "+c.Name, c.A, c.B, ra, rb); f != nil {
		f.Key = "regression: " + c.Name
		if c.Key != "" {
			f.Key = c.Key
		}
		return f
	}
	return nil
}

func runPairRegression(h *vlib.H, cases []pairCase) {
	vlib.Enum(h, "regression-pairs", false, func(yield func(pairCase) bool) {
		for i, c := range cases {
			if h.Mine(i) && !yield(c) {
				return
			}
		}
	}, pairCheck)
}

var c07Pairs = []pairCase{
	{Name: "F22-enum-of-pasted-macro-order",
		A: "JSIGHT 0.3\nENUM @e2\n[2]\nMACRO @m\n(\n  ENUM @e1\n  [1]\n)\nPASTE @m\n",
		B: "JSIGHT 0.3\nENUM @e2\n[2]\nENUM @e1\n[1]\n"},
}

// keyF44: the text between a schema body and the next directive is read by the
// schema library, whose comment rules differ from the scanner's.
const keyF44 = "hash-comment-after-body-read-by-schema-library"

var c05Pairs = []pairCase{
	{Name: "F44-bare-hash-after-body-swallows-next-line", Key: keyF44,
		A: "JSIGHT 0.3\nURL /p/{a}\n  Path\n    {\n      \"a\": \"s\"\n    }\n  GET\n",
		B: "JSIGHT 0.3\nURL /p/{a}\n  Path\n    {\n      \"a\": \"s\"\n    }\n  #\n  GET\n"},
	{Name: "F44-double-hash-after-body-rejected", Key: keyF44,
		A: "JSIGHT 0.3\nURL /p/{a}\n  Path\n    {\n      \"a\": \"s\"\n    }\n  GET\n",
		B: "JSIGHT 0.3\nURL /p/{a}\n  Path\n    {\n      \"a\": \"s\"\n    }\n  ## x\n  GET\n"},
	{Name: "hash-comment-with-text-after-body", // must keep working
		A: "JSIGHT 0.3\nURL /p/{a}\n  Path\n    {\n      \"a\": \"s\"\n    }\n  GET\n",
		B: "JSIGHT 0.3\nURL /p/{a}\n  Path\n    {\n      \"a\": \"s\"\n    }\n  # x\n  GET\n"},
	{Name: "bare-and-double-hash-between-body-less-directives",
		A: "JSIGHT 0.3\nGET /a\n  200 any\nGET /b\n  200 any\n",
		B: "JSIGHT 0.3\n#\n##\nGET /a\n  ##\n  200 any #\n## x\n#\nGET /b ##\n  200 any\n##\n"},
}

var c09Regression = []regCase{
	{Name: "F14-jsonrpc-id-collision", Source: "JSIGHT 0.3\nURL /c\n  Protocol json-rpc-2.0\n  Method \"a /b\"\n    Params\n    {}\nURL \"/b /c\"\n  Protocol json-rpc-2.0\n  Method a\n    Params\n    {}\n", Expect: "reject"},
	{Name: "F33-invalid-utf8-paths-collide", Source: "JSIGHT 0.3\nGET \"/a\xff\"\n  200 any\nGET \"/a\xfe\"\n  200 any\n", Expect: "reject"},
}

var c18Regression = []regCase{
	{Name: "F21-banned-macro", Source: "JSIGHT 0.3\nMACRO @m\n(\n  200 any\n)\nGET /a\n  PASTE @m\n", Expect: "reject", Banned: []string{"MACRO"}},
	{Name: "F21-banned-paste", Source: "JSIGHT 0.3\nMACRO @m\n(\n  200 any\n)\nGET /a\n  PASTE @m\n", Expect: "reject", Banned: []string{"PASTE"}},
	{Name: "F21-banned-kind-inside-pasted-macro", Source: "JSIGHT 0.3\nMACRO @m\n(\n  Query\n  {\"a\": 1}\n)\nGET /a\n  PASTE @m\n", Expect: "reject", Banned: []string{"Query"}},
}
