package props

import (
	"fmt"
	"sort"
	"strings"
	"testing"

	"pgregory.net/rapid"

	"github.com/jsightapi/jsight-api-go-library/core"
	"github.com/jsightapi/jsight-api-go-library/directive"
	"github.com/jsightapi/jsight-api-go-library/jerr"
	"github.com/jsightapi/jsight-schema-go-library/fs"

	"verif/vlib"
)

// c06Kind is one renderable directive kind of the context-resolution check.
type c06Kind struct {
	name     string
	de       directive.Enumeration
	line     string // keyword line (%d = position, keeps names unique)
	body     string // body placed after the optional '('
	hasPath  bool   // an HTTP method carrying its own path
	noParens bool   // the kind cannot be followed by '(' (Description: '(' is its text)
}

var c06Kinds = []c06Kind{
	{"JSIGHT", directive.Jsight, "JSIGHT 0.3", "", false, false},
	{"INFO", directive.Info, "INFO", "", false, false},
	{"Title", directive.Title, `Title "t%d"`, "", false, false},
	{"Version", directive.Version, "Version %d", "", false, false},
	{"Description", directive.Description, "Description", "  txt%d", false, true},
	{"SERVER", directive.Server, "SERVER @s%d", "", false, false},
	{"BaseUrl", directive.BaseURL, `BaseUrl "u%d"`, "", false, false},
	{"URL", directive.URL, "URL /u%d", "", false, false},
	{"GET", directive.Get, "GET", "", false, false},
	{"GETp", directive.Get, "GET /g%d", "", true, false},
	{"POST", directive.Post, "POST", "", false, false},
	{"PUTp", directive.Put, "PUT /p%d", "", true, false},
	{"PATCH", directive.Patch, "PATCH", "", false, false},
	{"DELETE", directive.Delete, "DELETE", "", false, false},
	{"Body", directive.Body, "Body any", "", false, false},
	{"Request", directive.Request, "Request any", "", false, false},
	{"200", directive.HTTPResponseCode, "200 any", "", false, false},
	{"Path", directive.Path, "Path", `{"p%d":1}`, false, false},
	{"Headers", directive.Headers, "Headers", `{"h%d":1}`, false, false},
	{"Query", directive.Query, "Query", `{"q%d":1}`, false, false},
	{"TYPE", directive.Type, "TYPE @t%d any", "", false, false},
	{"ENUM", directive.Enum, "ENUM @e%d", "[%d]", false, false},
	{"MACRO", directive.Macro, "MACRO @m%d", "", false, false},
	{"PASTE", directive.Paste, "PASTE @m%d", "", false, false},
	{"Protocol", directive.Protocol, "Protocol json-rpc-2.0", "", false, false},
	{"Method", directive.Method, "Method m%d", "", false, false},
	{"Params", directive.Params, "Params", `{"a%d":1}`, false, false},
	{"Result", directive.Result, "Result", `{"r%d":1}`, false, false},
	{"TAG", directive.TAG, "TAG @g%d", "", false, false},
	{"Tags", directive.Tags, "Tags @g%d", "", false, false},
	{"DELETEp", directive.Delete, "DELETE /d%d", "", true, false},
}

// c06Tok is one token of a case: a directive kind (index into c06Kinds),
// optionally followed by '(', or a ')' (K = -1).
type c06Tok struct {
	K int  `json:"k"`
	X bool `json:"x,omitempty"`
}

type c06Node struct {
	k        int
	idx      int
	explicit bool
	parent   *c06Node
	children []*c06Node
}

func c06Render(ts []c06Tok) (string, []int) {
	var sb strings.Builder
	var idxs []int
	for i, t := range ts {
		idxs = append(idxs, sb.Len())
		if t.K < 0 {
			sb.WriteString(")\n")
			continue
		}
		k := c06Kinds[t.K]
		if strings.Contains(k.line, "%d") {
			sb.WriteString(fmt.Sprintf(k.line, i))
		} else {
			sb.WriteString(k.line)
		}
		sb.WriteString("\n")
		if t.X {
			sb.WriteString("(\n")
		}
		if k.body != "" {
			sb.WriteString(fmt.Sprintf(k.body, i))
			sb.WriteString("\n")
		}
	}
	return sb.String(), idxs
}

type c06Ref struct {
	reject bool
	class  string
	at     int
	roots  []*c06Node
	// stats for the non-triviality rule
	walkOut2, closes, afterChildless bool
}

// c06Reference is the walk the property describes. Only the admissibility
// relation is taken from the library (the property is parametric in it).
func c06Reference(ts []c06Tok, idxs []int, total int) c06Ref {
	var res c06Ref
	var cur *c06Node
	var pending *c06Node
	place := func(d *c06Node) (bool, string) {
		steps := 0
		for {
			if cur == nil {
				if c06Kinds[d.k].de.IsAllowedForRootContext() {
					res.roots = append(res.roots, d)
					cur = d
					if steps >= 2 {
						res.walkOut2 = true
					}
					return true, ""
				}
				return false, "ctx"
			}
			if c06Kinds[cur.k].de.IsAllowedForDirectiveContext(c06Kinds[d.k].de) {
				if c06Kinds[d.k].hasPath && c06Kinds[cur.k].de == directive.URL {
					// a URL does not admit a method that carries its own path
					if cur.explicit {
						return false, "ctxpath"
					}
					cur = cur.parent
					steps++
					continue
				}
				d.parent = cur
				cur.children = append(cur.children, d)
				if steps >= 2 {
					res.walkOut2 = true
				}
				if steps >= 1 && len(cur.children) == 1 {
					res.afterChildless = true
				}
				cur = d
				return true, ""
			}
			if cur.explicit {
				return false, "ctx"
			}
			cur = cur.parent
			steps++
		}
	}
	flush := func() (bool, string, int) {
		if pending == nil {
			return true, "", 0
		}
		d := pending
		pending = nil
		ok, c := place(d)
		return ok, c, d.idx
	}
	for i, t := range ts {
		if ok, c, at := flush(); !ok {
			return c06Ref{reject: true, class: c, at: at}
		}
		if t.K < 0 {
			res.closes = true
			found := false
			for cur != nil {
				if cur.explicit {
					cur = cur.parent
					found = true
					break
				}
				cur = cur.parent
			}
			if !found {
				return c06Ref{reject: true, class: "noctx", at: idxs[i]}
			}
			continue
		}
		pending = &c06Node{k: t.K, idx: idxs[i], explicit: t.X}
	}
	if ok, c, at := flush(); !ok {
		return c06Ref{reject: true, class: c, at: at}
	}
	for c := cur; c != nil; c = c.parent {
		if c.explicit {
			r := res
			r.reject, r.class, r.at = true, "unclosed", total
			r.roots = nil
			return r
		}
	}
	return res
}

func c06DumpRef(ns []*c06Node, sb *strings.Builder) {
	for _, n := range ns {
		fmt.Fprintf(sb, "(%s@%d", c06Kinds[n.k].de.String(), n.idx)
		if n.explicit {
			sb.WriteString("!")
		}
		c06DumpRef(n.children, sb)
		sb.WriteString(")")
	}
}

func c06DumpAct(ds []*directive.Directive, parent *directive.Directive, sb *strings.Builder) {
	for _, d := range ds {
		fmt.Fprintf(sb, "(%s@%d", d.Type().String(), d.VerifKeywordBegin())
		if d.HasExplicitContext {
			sb.WriteString("!")
		}
		if d.Parent != parent {
			sb.WriteString("?PARENT")
		}
		c06DumpAct(d.Children, d, sb)
		sb.WriteString(")")
	}
}

func c06Classify(msg string) string {
	switch {
	case strings.Contains(msg, jerr.IncorrectContextOfDirective) && strings.Contains(msg, "with the \"Path\" parameter"):
		return "ctxpath"
	case strings.Contains(msg, jerr.IncorrectContextOfDirective):
		return "ctx"
	case strings.Contains(msg, jerr.ThereIsNoExplicitContextForClosure):
		return "noctx"
	case strings.Contains(msg, "not all explicit contexts are closed"):
		return "unclosed"
	}
	return ""
}

func c06Check(ts []c06Tok, info *vlib.Info) (f *vlib.Failure) {
	src, idxs := c06Render(ts)
	ref := c06Reference(ts, idxs, len(src))
	info.NonTrivial = ref.walkOut2 || ref.closes || ref.afterChildless || ref.reject
	if ref.reject {
		info.Class("reject:" + ref.class)
	} else {
		info.Class("tree")
	}
	info.Sample = map[string]any{"source": src}
	defer func() {
		if r := recover(); r != nil {
			f = vlib.Failf("panic", "panic %v on %q", r, src)
		}
	}()
	c := core.NewJApiCore(fs.NewFile("root.jst", []byte(src)), core.WithFixedSeedForRegex())
	je := c.ValidateJAPI()
	cls := ""
	if je != nil {
		cls = c06Classify(je.Msg)
	}
	if ref.reject {
		if cls != ref.class {
			return vlib.Failf("verdict", "source %q: the walk finds no place (%s at byte %d) but the library says %q (%v)", src, ref.class, ref.at, cls, je)
		}
		want := ref.at
		if ref.class == "unclosed" {
			// reported at the end of input
			if int(je.Index()) < len(src)-2 || int(je.Index()) > len(src) {
				return vlib.Failf("index", "source %q: 'unclosed' reported at %d, input ends at %d", src, je.Index(), len(src))
			}
			return nil
		}
		if int(je.Index()) != want {
			return vlib.Failf("index", "source %q: %s rejection reported at byte %d, the offending token is at %d", src, cls, je.Index(), want)
		}
		return nil
	}
	if cls != "" {
		return vlib.Failf("verdict", "source %q: a place exists for every directive but the library rejects with %q at %d: %s", src, cls, je.Index(), je.Msg)
	}
	var all []*directive.Directive
	all = append(all, c.VerifDirectives()...)
	for _, m := range c.VerifMacros() {
		found := false
		for _, d := range all {
			if d == m {
				found = true
			}
		}
		if !found {
			all = append(all, m)
		}
	}
	sort.Slice(all, func(i, j int) bool { return all[i].VerifKeywordBegin() < all[j].VerifKeywordBegin() })
	var a, b strings.Builder
	c06DumpRef(ref.roots, &a)
	c06DumpAct(all, nil, &b)
	if a.String() != b.String() {
		return vlib.Failf("tree", "source %q\n  want %s\n  got  %s\n  (later-stage error: %v)", src, a.String(), b.String(), je)
	}
	return nil
}

func c06Alphabet() []c06Tok {
	var alpha []c06Tok
	for i, k := range c06Kinds {
		alpha = append(alpha, c06Tok{K: i})
		if !k.noParens {
			alpha = append(alpha, c06Tok{K: i, X: true})
		}
	}
	return append(alpha, c06Tok{K: -1})
}

func kindIdx(name string) int {
	for i, k := range c06Kinds {
		if k.name == name {
			return i
		}
	}
	panic(name)
}

func c06Prefixes() [][]c06Tok {
	p := func(names ...string) []c06Tok {
		var out []c06Tok
		for _, n := range names {
			x := strings.HasSuffix(n, "(")
			out = append(out, c06Tok{K: kindIdx(strings.TrimSuffix(n, "(")), X: x})
		}
		return out
	}
	return [][]c06Tok{
		{}, p("URL"), p("URL("), p("URL", "GET"), p("URL", "GET", "Request"), p("GETp", "200"), p("INFO"), p("SERVER"),
		p("MACRO("), p("MACRO(", "URL"), p("TAG"), p("URL", "Protocol", "Method"), p("URL(", "GET("),
		p("MACRO(", "URL("), p("MACRO(", "GETp", "200("), p("GETp("), p("URL", "GET", "200", "Headers"),
	}
}

// c06Paste is a case of the paste-pass campaign: Host tokens with one PASTE
// (K = -2) whose macro body is Body; the macro is written after the host.
type c06Paste struct {
	Host []c06Tok `json:"host"`
	Body []c06Tok `json:"body"`
}

// c06PasteCheck: when scanning and the macro checks pass, the tree after
// expansion must be the reference resolution of the expanded token sequence.
func c06PasteCheck(c c06Paste, info *vlib.Info) (f *vlib.Failure) {
	// the macro body must be self-contained: a ')' that closes the MACRO's own
	// parenthesis early would leave the rest of "the body" at the top level
	depth := 0
	for _, t := range c.Body {
		if t.K < 0 {
			depth--
		} else if t.X {
			depth++
		}
		if depth < 0 {
			info.Class("paste-pass:body-not-self-contained")
			return nil
		}
	}
	if depth != 0 {
		info.Class("paste-pass:body-not-self-contained")
		return nil
	}
	// render: host (PASTE @mac at the marked place), then MACRO @mac ( body )
	var sb strings.Builder
	var hostIdx []int
	for i, t := range c.Host {
		hostIdx = append(hostIdx, sb.Len())
		if t.K == -2 {
			sb.WriteString("PASTE @mac\n")
			continue
		}
		if t.K < 0 {
			sb.WriteString(")\n")
			continue
		}
		k := c06Kinds[t.K]
		if strings.Contains(k.line, "%d") {
			sb.WriteString(fmt.Sprintf(k.line, i))
		} else {
			sb.WriteString(k.line)
		}
		sb.WriteString("\n")
		if t.X {
			sb.WriteString("(\n")
		}
		if k.body != "" {
			sb.WriteString(fmt.Sprintf(k.body, i) + "\n")
		}
	}
	sb.WriteString("MACRO @mac\n(\n")
	var bodyIdx []int
	for i, t := range c.Body {
		bodyIdx = append(bodyIdx, sb.Len())
		if t.K < 0 {
			sb.WriteString(")\n")
			continue
		}
		k := c06Kinds[t.K]
		n := 100 + i
		if strings.Contains(k.line, "%d") {
			sb.WriteString(fmt.Sprintf(k.line, n))
		} else {
			sb.WriteString(k.line)
		}
		sb.WriteString("\n")
		if t.X {
			sb.WriteString("(\n")
		}
		if k.body != "" {
			sb.WriteString(fmt.Sprintf(k.body, n) + "\n")
		}
	}
	sb.WriteString(")\n")
	src := sb.String()
	// expanded sequence
	var exp []c06Tok
	var expIdx []int
	for i, t := range c.Host {
		if t.K == -2 {
			exp = append(exp, c.Body...)
			expIdx = append(expIdx, bodyIdx...)
			continue
		}
		exp = append(exp, t)
		expIdx = append(expIdx, hostIdx[i])
	}
	ref := c06Reference(exp, expIdx, len(src))
	info.NonTrivial = len(c.Body) >= 2
	info.Class("paste-pass")
	info.Sample = map[string]any{"source": src}
	defer func() {
		if r := recover(); r != nil {
			f = vlib.Failf("panic", "panic %v on %q", r, src)
		}
	}()
	core1 := core.NewJApiCore(fs.NewFile("root.jst", []byte(src)), core.WithFixedSeedForRegex())
	je := core1.ValidateJAPI()
	dwp := core1.VerifDirectivesWithPastes()
	if dwp == nil {
		info.Class("paste-pass:not-reached")
		return nil // rejected before expansion (scanning or macro checks)
	}
	cls := ""
	if je != nil {
		cls = c06Classify(je.Msg)
	}
	if ref.reject {
		info.Class("paste-pass:reference-rejects")
		// the body does not fit where it is pasted (or leaves a parenthesis open):
		// the expansion must be refused as an incorrect context
		if je == nil {
			return vlib.Failf("paste-verdict", "source %q: the expanded sequence has no valid resolution (%s) but the document is accepted", src, ref.class)
		}
		return nil
	}
	if cls == "ctx" || cls == "ctxpath" {
		return vlib.Failf("paste-verdict", "source %q: every directive of the expanded sequence has a place, but the library rejects with %q", src, je.Msg)
	}
	info.Class("paste-pass:tree-compared")
	all := append([]*directive.Directive{}, dwp...)
	var a, b strings.Builder
	c06DumpRef(ref.roots, &a)
	c06DumpAct(all, nil, &b)
	// explicit flags of pasted directives are kept by the copy; compare as is
	if a.String() != b.String() {
		return vlib.Failf("paste-tree", "source %q\n  want %s\n  got  %s\n  (later-stage error: %v)", src, a.String(), b.String(), je)
	}
	return nil
}

func TestC06(t *testing.T) {
	h := vlib.New(t, "C06", "exploration",
		"sequences of directive kinds (29 tree kinds, HTTP methods with and without their own path), each optionally followed by '(', and ')' tokens: every sequence up to the tier's length after each of 17 context-opening prefixes, plus rapid-drawn sequences up to 25 tokens; non-trivial = the reference walk leaves >= 2 levels, or meets a ')', or places a directive after a childless one, or rejects; distinct by sequence",
		"the admissibility relation (which kind admits which) is read from the library's own table: the property is parametric in it", "the directive tree is read through the verif accessor hooks")
	h.Require("tree", "reject:ctx", "reject:ctxpath", "reject:noctx", "reject:unclosed", "paste-pass:tree-compared", "paste-pass:reference-rejects")
	alpha := c06Alphabet()
	prefixes := c06Prefixes()
	maxLen := h.Pick(2, 3)
	vlib.Enum(h, "kind-sequences-exhaustive", true, func(yield func([]c06Tok) bool) {
		idx := 0
		var rec func(cur []c06Tok, depth int) bool
		rec = func(cur []c06Tok, depth int) bool {
			if h.Mine(idx) {
				if !yield(append([]c06Tok{}, cur...)) {
					return false
				}
			}
			idx++
			if depth == 0 {
				return true
			}
			for _, tk := range alpha {
				if !rec(append(cur, tk), depth-1) {
					return false
				}
			}
			return true
		}
		for _, p := range prefixes {
			if !rec(append([]c06Tok{}, p...), maxLen) {
				return
			}
		}
	}, c06Check)

	// the paste pass: a macro body pasted into each host context
	hosts := [][]c06Tok{}
	mk := func(names ...string) []c06Tok {
		var out []c06Tok
		for _, n := range names {
			if n == "PASTE!" {
				out = append(out, c06Tok{K: -2})
				continue
			}
			if n == ")" {
				out = append(out, c06Tok{K: -1})
				continue
			}
			x := strings.HasSuffix(n, "(")
			out = append(out, c06Tok{K: kindIdx(strings.TrimSuffix(n, "(")), X: x})
		}
		return out
	}
	hosts = append(hosts, mk("PASTE!"), mk("PASTE!", "TYPE"), mk("URL", "PASTE!"), mk("URL", "PASTE!", "GET"), mk("URL(", "PASTE!", ")", "TYPE"),
		mk("URL", "GET", "PASTE!"), mk("URL", "GET", "PASTE!", "200"), mk("GETp", "200", "PASTE!"), mk("GETp", "Request", "PASTE!", "200"),
		mk("INFO", "PASTE!"), mk("SERVER", "PASTE!"), mk("URL", "GET(", "PASTE!", ")", "Tags"), mk("URL", "GET", "200", "POST(", "PASTE!", ")", "Tags"),
		mk("GETp(", "200(", "PASTE!", ")", "PASTE!", ")"))
	pasteLen := h.Pick(2, 3)
	vlib.Enum(h, "paste-pass-exhaustive", true, func(yield func(c06Paste) bool) {
		idx := 0
		var rec func(cur []c06Tok, depth int, host []c06Tok) bool
		rec = func(cur []c06Tok, depth int, host []c06Tok) bool {
			if len(cur) > 0 {
				if h.Mine(idx) {
					if !yield(c06Paste{Host: host, Body: append([]c06Tok{}, cur...)}) {
						return false
					}
				}
				idx++
			}
			if depth == 0 {
				return true
			}
			for _, tk := range alpha {
				if tk.K >= 0 && (c06Kinds[tk.K].name == "MACRO" || c06Kinds[tk.K].name == "JSIGHT" || c06Kinds[tk.K].name == "PASTE") {
					continue
				}
				if !rec(append(cur, tk), depth-1, host) {
					return false
				}
			}
			return true
		}
		for _, host := range hosts {
			if !rec(nil, pasteLen, host) {
				return
			}
		}
	}, c06PasteCheck)

	vlib.Rapid(h, "kind-sequences-random", h.N(20000, 1500000), func(t *rapid.T) []c06Tok {
		n := rapid.IntRange(1, 25).Draw(t, "n")
		ts := append([]c06Tok{}, rapid.SampledFrom(prefixes).Draw(t, "prefix")...)
		open := 0
		for i := 0; i < n; i++ {
			// bias towards sequences that stay valid for a while
			if open > 0 && rapid.IntRange(0, 5).Draw(t, "close") == 0 {
				ts = append(ts, c06Tok{K: -1})
				open--
				continue
			}
			tk := rapid.SampledFrom(alpha).Draw(t, "tok")
			if tk.X {
				open++
			}
			ts = append(ts, tk)
		}
		return ts
	}, c06Check)
}
