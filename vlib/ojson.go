package vlib

import (
	"bytes"
	"encoding/json"
	"fmt"
	"strings"
)

// OMap is a JSON object with its member order preserved.
type OMap struct {
	Keys []string
	Vals map[string]any
}

// DecodeOrdered parses JSON keeping object member order; objects become
// *OMap, arrays []any, numbers json.Number.
func DecodeOrdered(b []byte) (any, error) {
	dec := json.NewDecoder(bytes.NewReader(b))
	dec.UseNumber()
	v, err := decVal(dec)
	if err != nil {
		return nil, err
	}
	if dec.More() {
		return nil, fmt.Errorf("trailing data after JSON value")
	}
	return v, nil
}

func decVal(dec *json.Decoder) (any, error) {
	tok, err := dec.Token()
	if err != nil {
		return nil, err
	}
	if d, ok := tok.(json.Delim); ok {
		switch d {
		case '{':
			m := &OMap{Vals: map[string]any{}}
			for dec.More() {
				kt, err := dec.Token()
				if err != nil {
					return nil, err
				}
				k, ok := kt.(string)
				if !ok {
					return nil, fmt.Errorf("non-string key")
				}
				v, err := decVal(dec)
				if err != nil {
					return nil, err
				}
				if _, dup := m.Vals[k]; dup {
					return nil, fmt.Errorf("duplicate key %q", k)
				}
				m.Keys = append(m.Keys, k)
				m.Vals[k] = v
			}
			if _, err := dec.Token(); err != nil {
				return nil, err
			}
			return m, nil
		case '[':
			a := []any{}
			for dec.More() {
				v, err := decVal(dec)
				if err != nil {
					return nil, err
				}
				a = append(a, v)
			}
			if _, err := dec.Token(); err != nil {
				return nil, err
			}
			return a, nil
		}
	}
	return tok, nil
}

// Get walks a path of object keys; nil when absent.
func (m *OMap) Get(path ...string) any {
	var cur any = m
	for _, k := range path {
		o, ok := cur.(*OMap)
		if !ok || o == nil {
			return nil
		}
		v, ok := o.Vals[k]
		if !ok {
			return nil
		}
		cur = v
	}
	return cur
}

func (m *OMap) Obj(path ...string) *OMap {
	o, _ := m.Get(path...).(*OMap)
	return o
}

func (m *OMap) Str(path ...string) (string, bool) {
	s, ok := m.Get(path...).(string)
	return s, ok
}

func (m *OMap) Has(k string) bool {
	if m == nil {
		return false
	}
	_, ok := m.Vals[k]
	return ok
}

// Canon renders an ordered value as canonical text (member order kept): two
// values are equal, order included, iff their Canon texts are equal.
func Canon(v any) string {
	var sb strings.Builder
	canon(&sb, v)
	return sb.String()
}

func canon(sb *strings.Builder, v any) {
	switch x := v.(type) {
	case *OMap:
		sb.WriteByte('{')
		for i, k := range x.Keys {
			if i > 0 {
				sb.WriteByte(',')
			}
			kb, _ := json.Marshal(k)
			sb.Write(kb)
			sb.WriteByte(':')
			canon(sb, x.Vals[k])
		}
		sb.WriteByte('}')
	case []any:
		sb.WriteByte('[')
		for i, e := range x {
			if i > 0 {
				sb.WriteByte(',')
			}
			canon(sb, e)
		}
		sb.WriteByte(']')
	default:
		b, _ := json.Marshal(x)
		sb.Write(b)
	}
}

// ParseCatalog decodes a ToJson result.
func ParseCatalog(js string) (*OMap, error) {
	v, err := DecodeOrdered([]byte(js))
	if err != nil {
		return nil, err
	}
	m, ok := v.(*OMap)
	if !ok {
		return nil, fmt.Errorf("catalog is not an object")
	}
	return m, nil
}
