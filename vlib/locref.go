package vlib

import (
	"fmt"
	"strings"
)

// NewlineConvention classifies a file: "LF", "CRLF", "CR", "none" or "mixed".
func NewlineConvention(s string) string {
	crlf := strings.Count(s, "\r\n")
	cr := strings.Count(s, "\r") - crlf
	lf := strings.Count(s, "\n") - crlf
	switch {
	case crlf == 0 && cr == 0 && lf == 0:
		return "none"
	case crlf > 0 && cr == 0 && lf == 0:
		return "CRLF"
	case cr > 0 && crlf == 0 && lf == 0:
		return "CR"
	case lf > 0 && crlf == 0 && cr == 0:
		return "LF"
	}
	return "mixed"
}

// RefLineQuote computes, from the file content and a byte index alone, the
// 1-based line number and the quoted source line a diagnostic at that index
// must carry (files with one newline convention only).
func RefLineQuote(content string, index int) (line int, quote string) {
	conv := NewlineConvention(content)
	if index > len(content) {
		index = len(content)
	}
	nl := "\n"
	switch conv {
	case "CRLF":
		nl = "\r\n"
	case "CR":
		nl = "\r"
	}
	// line breaks that end before the index
	line = 1
	pos := 0
	lineStart := 0
	for {
		i := strings.Index(content[pos:], nl)
		if i < 0 {
			break
		}
		end := pos + i + len(nl) // first byte of the next line
		// the index is on this line if it lies before the end of its terminator;
		// an index on the terminator itself still belongs to the line
		if index < end {
			break
		}
		line++
		lineStart = end
		pos = end
	}
	lineEnd := len(content)
	if i := strings.Index(content[lineStart:], nl); i >= 0 {
		lineEnd = lineStart + i
	}
	q := content[lineStart:lineEnd]
	const maxLength = 200
	if len(q) > maxLength {
		q = strings.TrimLeft(q[:maxLength-3], " \t") + "..."
		return line, q
	}
	return line, strings.TrimLeft(q, " \t")
}

// CheckLocation is the file/index/line/quote part of the C02 oracle. files
// maps project-relative names to contents.
func CheckLocation(e *ErrInfo, files map[string]string) *Failure {
	content, ok := files[e.File]
	if !ok || e.File == "" {
		return Failf("location-file", "diagnostic %q is located in %q, which is not a file of the project", e.Msg, e.AbsFile)
	}
	if e.Index < 0 || e.Index > len(content) {
		return Failf("location-index-out-of-file", "diagnostic %q: byte index %d is outside %s (%d bytes)", e.Msg, e.Index, e.File, len(content))
	}
	conv := NewlineConvention(content)
	if conv == "mixed" {
		nlines := strings.Count(content, "\n") + strings.Count(content, "\r") + 1
		if e.Line < 1 || e.Line > nlines {
			return Failf("location-line-range", "diagnostic %q: line %d of a file with at most %d lines", e.Msg, e.Line, nlines)
		}
		q := strings.TrimSuffix(e.Quote, "...")
		if !strings.Contains(content, q) {
			return Failf("location-quote", "diagnostic %q: quote %q is not a part of %s", e.Msg, e.Quote, e.File)
		}
		return nil
	}
	line, quote := RefLineQuote(content, e.Index)
	if e.Line != line {
		return Failf("location-line", "diagnostic %q at byte %d of %s (%s line ends): line %d reported, the index is on line %d", e.Msg, e.Index, e.File, conv, e.Line, line)
	}
	// leading blanks of the quoted line are not significant
	if strings.TrimLeft(e.Quote, " \t") != strings.TrimLeft(quote, " \t") {
		return Failf("location-quote", "diagnostic %q at byte %d of %s (%s line ends): quote %q, the source line is %q", e.Msg, e.Index, e.File, conv, e.Quote, quote)
	}
	return nil
}

// RefTrace computes the Error() text a located diagnostic must have: message,
// "file:line" of the fault, then one "includer:line" per enclosing INCLUDE,
// innermost first; nothing but the message when the fault is in the root.
// chain lists (includerFile, includeLine) innermost first.
func RefTrace(msg, dir, file string, line int, chain [][2]any) string {
	if len(chain) == 0 {
		return msg
	}
	var sb strings.Builder
	sb.WriteString(msg)
	fmt.Fprintf(&sb, "\n%s/%s:%d", dir, file, line)
	for _, c := range chain {
		fmt.Fprintf(&sb, "\n%s/%s:%d", dir, c[0], c[1])
	}
	return sb.String()
}
