package vlib

import (
	"fmt"
	"sort"
	"strings"
)

// Style holds every surface choice a rendering makes. The zero value is the
// neutral (canonical) style. Per-position choices are derived from Seed by a
// hash, so a rendering is a pure function of (document, style).
type Style struct {
	NL           string `json:"nl,omitempty"`           // "" or "\n", "\r\n", "\r"
	Indent       int    `json:"indent,omitempty"`       // 0 neutral (2 spaces per level), 1 none, 2 tabs, 3 random per line
	Comments     int    `json:"comments,omitempty"`     // 0..3 rate of '#' comment lines between directives
	Blocks       int    `json:"blocks,omitempty"`       // rate of '###' block comments
	Blanks       int    `json:"blanks,omitempty"`       // rate of blank lines
	TrailWS      int    `json:"trailws,omitempty"`      // rate of trailing blanks on directive lines
	TrailComment int    `json:"trailcomment,omitempty"` // rate of trailing '# comment'
	// NoFinalNL: the root file ends without a line end.
	NoFinalNL  bool   `json:"noFinalNL,omitempty"`
	Quote      int    `json:"quote,omitempty"`      // rate of quoting parameters that need no quotes
	Parens     int    `json:"parens,omitempty"`     // rate of putting children in explicit parentheses
	AnnBlock   int    `json:"annblock,omitempty"`   // rate of /* */ instead of //
	DescParens int    `json:"descparens,omitempty"` // rate of parenthesised descriptions
	Seed       uint64 `json:"seed,omitempty"`
	// OnlyKnob / OnlyN: position-exhaustive mode - exactly one rewrite is
	// applied, the OnlyN-th (1-based) choice point of knob OnlyKnob; everything
	// else is neutral.
	OnlyKnob string `json:"only_knob,omitempty"`
	OnlyN    int    `json:"only_n,omitempty"`
}

// Span locates a rendered directive.
type Span struct {
	File    string `json:"file"`
	Begin   int    `json:"begin"`   // first byte of the keyword
	End     int    `json:"end"`     // one past the last byte of the directive's text (body and children included)
	OwnEnd  int    `json:"own_end"` // one past the directive's own lines (keyword line, parenthesis, body), children excluded
	Line    int    `json:"line"`    // 1-based line of the keyword
	BodyBeg int    `json:"body_begin,omitempty"`
	BodyEnd int    `json:"body_end,omitempty"`
}

type Rendered struct {
	Text  string
	Spans map[int]Span // by Dir.ID
	// Knobs counts how often each knob class was actually applied.
	Knobs map[string]int
	// Points (position-exhaustive mode): number of choice points met per knob.
	Points map[string]int
	// Files: every file of the project (the root and the included ones) by
	// path relative to the project directory.
	Files map[string]string
}

// Project wraps the rendered files as a runnable project.
func (r Rendered) Project() Project {
	return Project{Files: r.Files, Root: "root.jst"}
}

type renderer struct {
	sb    strings.Builder
	st    Style
	nl    string
	spans map[int]Span
	knobs map[string]int
	file  string
	pos   int // counter of choice points
	// afterBareDescription: the previous thing written was bare description
	// text, where '#' and blank lines would be content.
	afterBareDescription bool
	// afterBody: the previous thing written was a schema or enum body. What
	// follows it up to the next directive is still read by the schema library,
	// whose comment rules differ ('##' is an error there, and '#' directly
	// before a line end swallows the next line - known finding, excluded here
	// by construction and counted).
	afterBody bool
	lineNo    int
	kcount    map[string]int
	files     map[string]string // finished included files (shared)
}

func (r *renderer) chance(knob string, rate int) bool {
	if r.st.OnlyKnob != "" {
		r.kcount[knob]++
		if knob == r.st.OnlyKnob && r.kcount[knob] == r.st.OnlyN {
			r.knobs[knob]++
			return true
		}
		return false
	}
	if rate <= 0 {
		return false
	}
	r.pos++
	h := mix(r.st.Seed, knob, r.pos)
	// rates 1,2,3 -> 1/6, 1/3, 2/3
	th := []uint64{0, 10, 20, 40}[min(rate, 3)]
	if h%60 < th {
		r.knobs[knob]++
		return true
	}
	return false
}

func (r *renderer) pick(knob string, n int) int {
	r.pos++
	return int(mix(r.st.Seed, knob, r.pos) % uint64(n))
}

func (r *renderer) write(s string) {
	r.sb.WriteString(s)
}

func (r *renderer) newline() {
	r.sb.WriteString(r.nl)
	r.lineNo++
}

var commentTexts = []string{"comment", "GET /x", "( not a paren", ") nor this", "// no annotation", "/* nor this */", "\"quote", "TYPE @zz", "a ## b", "# nested # hashes", "URL"}

// lineComment draws one spelling of a line comment: '#' alone, '##' alone,
// with and without a blank before the text, with a doubled hash.
func (r *renderer) lineComment() string {
	text := commentTexts[r.pick("ctext", len(commentTexts))]
	shape := r.pick("cshape", 8)
	if r.afterBody && shape <= 2 {
		r.knobs["excluded:hash-comment-shape-after-body"]++
		shape = 5
	}
	switch shape {
	case 0:
		return "#"
	case 1:
		return "##"
	case 2:
		return "## " + text
	case 3:
		return "#" + strings.TrimLeft(text, "#")
	case 4:
		return "#\t" + text
	}
	return "# " + text
}

func (r *renderer) indent(depth int) string {
	if r.st.OnlyKnob != "" {
		r.kcount["reindent-line"]++
		if r.st.OnlyKnob == "reindent-line" && r.kcount["reindent-line"] == r.st.OnlyN {
			r.knobs["reindent-line"]++
			return []string{"", " \t ", "       "}[r.st.Seed%3]
		}
		return strings.Repeat("  ", depth)
	}
	switch r.st.Indent {
	case 1:
		return ""
	case 2:
		return strings.Repeat("\t", depth)
	case 3:
		return []string{"", " ", "  ", "\t", "    ", " \t "}[r.pick("indent", 6)]
	}
	return strings.Repeat("  ", depth)
}

// trivia writes comments / blank lines that may stand between directives.
func (r *renderer) trivia(depth int) {
	if r.afterBareDescription {
		return
	}
	if r.chance("comment-line", r.st.Comments) {
		r.write(r.indent(depth) + r.lineComment())
		r.newline()
	}
	if r.chance("block-comment", r.st.Blocks) {
		r.write(r.indent(depth) + "###")
		if r.pick("blockml", 2) == 0 {
			r.newline()
			r.write(" " + commentTexts[r.pick("ctext", len(commentTexts))])
			r.newline()
		} else {
			r.write(" inline block ")
		}
		r.write("###")
		r.newline()
	}
	if r.chance("blank-line", r.st.Blanks) {
		r.newline()
	}
}

// NeedsQuotes: the value cannot be written bare.
func NeedsQuotes(v string) bool {
	if v == "" || strings.ContainsAny(v, " \t#") || strings.HasPrefix(v, "\"") || strings.HasPrefix(v, "//") || strings.HasPrefix(v, "/*") {
		return true
	}
	return false
}

func QuoteParam(v string) string {
	v = strings.ReplaceAll(v, `\`, `\\`)
	v = strings.ReplaceAll(v, `"`, `\"`)
	return `"` + v + `"`
}

func (r *renderer) param(v string) string {
	if NeedsQuotes(v) {
		return QuoteParam(v)
	}
	if strings.Contains(v, " | ") {
		return v
	}
	if r.chance("quote-param", r.st.Quote) {
		return QuoteParam(v)
	}
	return v
}

// SchemaParam returns the parameter spelling of a schema given as a parameter.
func (s *Schema) ParamText() string {
	switch {
	case s.Notation == "any" || s.Notation == "empty":
		return s.Notation
	case s.Root == "ref":
		return s.Ref
	case s.Root == "arrref":
		return "[" + s.Ref + "]"
	}
	return ""
}

// BodyLines renders a schema body (without indentation).
func (s *Schema) BodyLines() []string {
	if s.Raw != nil {
		return s.Raw
	}
	switch s.Notation {
	case "regex":
		return []string{"/" + s.Regex + "/"}
	case "any", "empty":
		return nil
	}
	switch s.Root {
	case "obj":
		return objLines(s.Obj, "")
	case "ref":
		return []string{s.Ref}
	case "arrref":
		return []string{"[" + s.Ref + "]"}
	case "or":
		return []string{s.Ref + " | " + s.Ref2}
	case "int":
		return []string{fmt.Sprint(s.Int)}
	case "str":
		return []string{fmt.Sprintf("%q", s.Str)}
	case "bool":
		return []string{"true"}
	}
	return nil
}

func objLines(o *Obj, ind string) []string {
	head := "{"
	switch len(o.AllOf) {
	case 0:
	case 1:
		head = fmt.Sprintf("{ // {allOf: %q}", o.AllOf[0])
	default:
		var qq []string
		for _, b := range o.AllOf {
			qq = append(qq, fmt.Sprintf("%q", b))
		}
		head = "{ // {allOf: [" + strings.Join(qq, ", ") + "]}"
	}
	lines := []string{ind + head}
	for i, p := range o.Props {
		comma := ","
		if i == len(o.Props)-1 {
			comma = ""
		}
		key := fmt.Sprintf("%s  %q: ", ind, p.Key)
		if p.KeyRef {
			key = fmt.Sprintf("%s  %s: ", ind, p.Key)
		}
		var rules []string
		val := ""
		switch p.V.Kind {
		case "int":
			val = fmt.Sprint(p.V.Int)
		case "str":
			val = fmt.Sprintf("%q", p.V.Str)
		case "bool":
			val = "true"
		case "ref":
			val = p.V.Ref
		case "arrref":
			val = "[" + p.V.Ref + "]"
		case "or":
			val = p.V.Ref + " | " + p.V.Ref2
		case "enumstr":
			val = fmt.Sprintf("%q", p.V.Str)
			rules = append(rules, "enum: "+p.V.Enum)
		case "typed":
			val = fmt.Sprint(p.V.Int)
			rules = append(rules, fmt.Sprintf("type: %q", p.V.Ref))
		case "emptyarr":
			val = "[]"
		case "emptyobj":
			val = "{}"
		case "orrule":
			val = fmt.Sprint(p.V.Int)
			rules = append(rules, fmt.Sprintf("or: [%q, %q]", p.V.Str, p.V.Ref))
		case "arrobj":
			sub := objLines(p.V.Obj, ind+"    ")
			lines = append(lines, key+"["+strings.Repeat("[", p.V.Wrap))
			lines = append(lines, sub...)
			lines = append(lines, ind+"  ]"+strings.Repeat("]", p.V.Wrap)+comma)
			continue
		case "obj":
			sub := objLines(p.V.Obj, ind+"  ")
			sub[0] = key + strings.TrimLeft(sub[0], " ")
			if p.V.Optional {
				// the rule comment of an object goes on its opening line
				if strings.Contains(sub[0], "// {") {
					sub[0] = strings.Replace(sub[0], "// {", "// {optional: true, ", 1)
				} else {
					sub[0] += " // {optional: true}"
				}
			}
			sub[len(sub)-1] += comma
			lines = append(lines, sub...)
			continue
		}
		if p.V.Optional {
			rules = append(rules, "optional: true")
		}
		line := key + val + comma
		if len(rules) > 0 {
			line += " // {" + strings.Join(rules, ", ") + "}"
		}
		lines = append(lines, line)
	}
	return append(lines, ind+"}")
}

func enumLines(vv []EnumVal) []string {
	var parts []string
	for _, v := range vv {
		if v.IsInt {
			parts = append(parts, fmt.Sprint(v.Int))
		} else {
			parts = append(parts, fmt.Sprintf("%q", v.Str))
		}
	}
	return []string{"[" + strings.Join(parts, ", ") + "]"}
}

// include writes the INCLUDE line and renders the included directives into
// their own file (paths are relative to the including file's directory).
func (r *renderer) include(d *Dir, depth int) {
	r.trivia(depth)
	r.afterBareDescription = false
	r.afterBody = false
	ind := r.indent(depth)
	r.write(ind)
	begin := r.sb.Len()
	line := r.lineNo
	name := ""
	if len(d.Params) > 0 {
		name = d.Params[0]
	}
	r.write("INCLUDE " + r.param(name))
	if r.chance("trailing-blanks", r.st.TrailWS) {
		r.write(" ")
	}
	if r.chance("trailing-comment", r.st.TrailComment) {
		r.write(" # " + commentTexts[r.pick("ctext", len(commentTexts))])
	}
	r.newline()
	r.spans[d.ID] = Span{File: r.file, Begin: begin, End: r.sb.Len(), OwnEnd: r.sb.Len(), Line: line + 1}
	dirOf := ""
	if i := strings.LastIndex(r.file, "/"); i >= 0 {
		dirOf = r.file[:i+1]
	}
	sub := &renderer{st: r.st, nl: r.nl, spans: r.spans, knobs: r.knobs, file: dirOf + name, kcount: r.kcount, files: r.files, pos: r.pos}
	for _, c := range d.Included {
		sub.dir(c, depth)
	}
	r.pos = sub.pos
	text := sub.sb.String()
	if d.NoFinalNewline {
		text = strings.TrimSuffix(text, r.nl)
	}
	r.files[sub.file] = text
}

func (r *renderer) dir(d *Dir, depth int) {
	if d.Kw == "INCLUDE" {
		r.include(d, depth)
		return
	}
	r.trivia(depth)
	r.afterBareDescription = false
	r.afterBody = false
	ind := r.indent(depth)
	r.write(ind)
	begin := r.sb.Len()
	line := r.lineNo
	r.write(d.Kw)
	for _, p := range d.Params {
		r.write(" " + r.param(p))
	}
	if d.Schema != nil && d.Schema.AsParam {
		if pt := d.Schema.ParamText(); pt != "" {
			r.write(" " + r.param(pt))
		}
	}
	if d.Schema != nil && !d.Schema.AsParam && d.Schema.Notation != "jsight" && d.Kw != "Headers" && d.Kw != "Query" && d.Kw != "Path" && d.Kw != "Params" && d.Kw != "Result" {
		// notation word before the body (regex) - any/empty are always AsParam
		r.write(" " + r.param(d.Schema.Notation))
	}
	annBlock := false
	if d.Ann != "" {
		if !strings.Contains(d.Ann, "#") && !strings.Contains(d.Ann, "*/") && r.chance("annotation-block-spelling", r.st.AnnBlock) {
			r.write(" /* " + d.Ann + " */")
			annBlock = true
		} else {
			r.write(" // " + d.Ann)
		}
	}
	if r.chance("trailing-blanks", r.st.TrailWS) {
		r.write([]string{" ", "  ", "\t", " \t"}[r.pick("tws", 4)])
	}
	bare := d.Kw == "Description"
	// a trailing comment is not attempted after a /* */ annotation: the scanner
	// then is already in the directive's body state, where '#' is body content
	awaitsBody := (IsCode(d.Kw) || d.Kw == "Request" || d.Kw == "Body" || d.Kw == "TYPE" || d.Kw == "ENUM" || d.Kw == "Headers" || d.Kw == "Query" || d.Kw == "Path" || d.Kw == "Params" || d.Kw == "Result") &&
		!(d.Schema != nil && d.Schema.AsParam)
	if !bare && !annBlock && r.chance("trailing-comment", r.st.TrailComment) {
		if awaitsBody {
			r.write(" # " + commentTexts[r.pick("ctext", len(commentTexts))])
		} else {
			r.write(" " + r.lineComment())
		}
	}
	r.newline()
	if (IsCode(d.Kw) || d.Kw == "Request" || d.Kw == "Body" || d.Kw == "TYPE" || d.Kw == "ENUM" || d.Kw == "Headers" || d.Kw == "Query" || d.Kw == "Path" || d.Kw == "Params" || d.Kw == "Result") &&
		!(d.Schema != nil && d.Schema.AsParam) {
		// the scanner now waits for a body: what follows is read like the text
		// after a body (see afterBody)
		r.afterBody = true
	}
	explicit := d.Explicit
	if !explicit && len(d.Children) > 0 && CanBeExplicit(d) && r.styleParensOK(d) && r.chance("explicit-parens", r.st.Parens) {
		explicit = true
	}
	bodyBeg, bodyEnd := 0, 0
	writeBody := func(lines []string) {
		bodyBeg = r.sb.Len() + len(r.bodyIndent(depth))
		for i, l := range lines {
			r.write(r.bodyIndent(depth) + l)
			if i == len(lines)-1 {
				bodyEnd = r.sb.Len()
			}
			r.newline()
			r.afterBody = true
		}
	}
	if explicit {
		r.write(r.indent(depth) + "(")
		r.newline()
	}
	switch {
	case d.Kw == "Description":
		txt := d.Text
		paren := r.chance("description-parens", r.st.DescParens)
		if paren {
			r.write(r.bodyIndent(depth) + "(")
			r.newline()
		}
		bodyBeg = r.sb.Len() + len(r.bodyIndent(depth))
		for i, l := range txt {
			if l == "" {
				r.newline()
				continue
			}
			r.write(r.bodyIndent(depth) + l)
			if i == len(txt)-1 {
				bodyEnd = r.sb.Len()
			}
			r.newline()
		}
		if paren {
			r.write(r.bodyIndent(depth) + ")")
			r.newline()
		} else {
			r.afterBareDescription = true
		}
	case d.Kw == "ENUM" && d.Enum != nil:
		writeBody(enumLines(d.Enum))
	case d.Schema != nil && !d.Schema.AsParam:
		writeBody(d.Schema.BodyLines())
	case d.Schema != nil && d.Schema.Raw != nil:
		writeBody(d.Schema.Raw)
	}
	ownEnd := r.sb.Len()
	for _, c := range d.Children {
		cd := depth + 1
		r.dir(c, cd)
	}
	if explicit {
		r.afterBareDescription = false
		r.afterBody = false
		r.write(r.indent(depth) + ")")
		r.newline()
	}
	r.spans[d.ID] = Span{File: r.file, Begin: begin, End: r.sb.Len(), OwnEnd: ownEnd, Line: line + 1, BodyBeg: bodyBeg, BodyEnd: bodyEnd}
}

// styleParensOK: style-chosen parentheses are only put where the children
// would nest there anyway and nothing after the directive relies on the
// implicit walk (a URL followed by hoisted methods is left alone by the
// caller through Dir.NoStyleParens).
func (r *renderer) styleParensOK(d *Dir) bool {
	if d.Kw == "MACRO" {
		return false
	}
	// an INCLUDE inside parentheses is outside the INCLUDE property's domain
	// (the included file ends while a parenthesis is open)
	return !containsInclude(d)
}

func containsInclude(d *Dir) bool {
	for _, c := range d.Children {
		if c.Kw == "INCLUDE" || containsInclude(c) {
			return true
		}
	}
	return false
}

func (r *renderer) bodyIndent(depth int) string {
	return strings.Repeat("  ", depth+1)
}

// RenderDirs renders a list of directives as one file.
func RenderDirs(dirs []*Dir, baseDepth int, st Style, file string) Rendered {
	r := &renderer{st: st, nl: st.NL, spans: map[int]Span{}, knobs: map[string]int{}, file: file, kcount: map[string]int{}, files: map[string]string{}}
	if r.nl == "" {
		r.nl = "\n"
	}
	for _, d := range dirs {
		r.dir(d, baseDepth)
	}
	switch r.nl {
	case "\r\n":
		r.knobs["newline-crlf"]++
	case "\r":
		r.knobs["newline-cr"]++
	}
	text := r.sb.String()
	if st.NoFinalNL && strings.HasSuffix(text, r.nl) && file == "root.jst" {
		text = strings.TrimSuffix(text, r.nl)
		r.knobs["no-final-newline"]++
	}
	r.files[file] = text
	return Rendered{Text: text, Spans: r.spans, Knobs: r.knobs, Points: r.kcount, Files: r.files}
}

// RewritePoints renders in counting mode and returns, per knob, how many
// positions the knob could be applied at in this document.
func RewritePoints(doc *Doc) map[string]int {
	return RenderDirs(doc.Top, 0, Style{OnlyKnob: "-", OnlyN: -1}, "root.jst").Points
}

// Render renders the whole document as a single file "root.jst".
func Render(doc *Doc, st Style) Rendered {
	return RenderDirs(doc.Top, 0, st, "root.jst")
}

// HasMultilineFreeText: the document holds a description of more than one line
// (such documents are excluded from newline rewriting by the property).
func (doc *Doc) HasMultilineFreeText() bool {
	multi := false
	doc.Walk(func(d, _ *Dir) {
		if d.Kw == "Description" && len(d.Text) > 1 {
			multi = true
		}
	})
	return multi
}

// KnobClasses lists the knob names sorted (for evidence classes).
func (r Rendered) KnobClasses() []string {
	var out []string
	for k := range r.Knobs {
		out = append(out, k)
	}
	sort.Strings(out)
	return out
}
