package vlib

import (
	"fmt"
	"os"
	"path/filepath"
	"sort"
	"strings"
	"sync"

	"pgregory.net/rapid"
)

// Keywords are all directive spellings the scanner knows (plus response codes).
var Keywords = []string{"JSIGHT", "INFO", "Title", "Version", "Description", "SERVER", "BaseUrl", "URL",
	"GET", "POST", "PUT", "PATCH", "DELETE", "Body", "Request", "200", "404", "599", "Path", "Headers", "Query",
	"TYPE", "ENUM", "MACRO", "PASTE", "Protocol", "Method", "Params", "Result", "TAG", "Tags", "INCLUDE"}

// Sigma is the token alphabet of the byte-level campaigns: every keyword,
// every delimiter, representative parameters and bodies.
var Sigma = append(append([]string{}, Keywords...),
	"(", ")", "\n", "\r\n", "\r", " ", "\t", "#", "###", "//", "/*", "*/", "/", "\"", "\\",
	"@a", "@b", "/a", "/a/{id}", "{}", "[]", "{\"a\":1}", "[1,2]", "@a | @b", "[@a]",
	"any", "empty", "regex", "jsight", "/abc/", "/a\\\\/", "\"x\"", "0.3", "json-rpc-2.0", "// {enum: @e}",
	"{ // {allOf: \"@a\"}\n}", "htmlFormEncoded", "foo", "\x00", "\xff", "1", ":", ",", "{", "}", "[", "]",
)

// SigmaSmall is a reduced alphabet for deeper exhaustive enumeration.
var SigmaSmall = []string{"URL", "GET", "200", "TYPE", "ENUM", "Description", "Body", "MACRO", "PASTE", "Request",
	"(", ")", "\n", " ", "#", "###", "//", "/*", "*/", "/", "\"", "\\", "@a", "/a", "{}", "[1]", "any", "regex", "/abc/", "/a\\\\/", "\"x\"", "foo"}

// Prefixes put the scanner into each parameter / body / comment / description /
// context state before the enumerated tokens follow.
var Prefixes = []string{
	"",
	"JSIGHT 0.3\n",
	"JSIGHT 0.3\nINFO\n",
	"JSIGHT 0.3\nINFO\n  Title ",
	"JSIGHT 0.3\nINFO\n  Description\n",
	"JSIGHT 0.3\nINFO\n  Description\n(\n text\n",
	"JSIGHT 0.3\nSERVER @s\n  BaseUrl ",
	"JSIGHT 0.3\nURL /a\n",
	"JSIGHT 0.3\nURL /a\n(\n",
	"JSIGHT 0.3\nGET /a ",
	"JSIGHT 0.3\nGET /a // note ",
	"JSIGHT 0.3\nGET /a /* note ",
	"JSIGHT 0.3\nGET /a\n  Query ",
	"JSIGHT 0.3\nGET /a\n  Query\n",
	"JSIGHT 0.3\nGET /a\n  Request ",
	"JSIGHT 0.3\nGET /a\n  Request regex\n",
	"JSIGHT 0.3\nGET /a\n  200 ",
	"JSIGHT 0.3\nGET /a\n  200\n",
	"JSIGHT 0.3\nGET /a\n  200\n    Body ",
	"JSIGHT 0.3\nGET /a\n  200\n    Headers\n",
	"JSIGHT 0.3\nGET /a\n  Path\n",
	"JSIGHT 0.3\nTYPE @a ",
	"JSIGHT 0.3\nTYPE @a\n",
	"JSIGHT 0.3\nTYPE @a regex\n",
	"JSIGHT 0.3\nGET /a\n  200 regex\n",
	"JSIGHT 0.3\nTYPE @a\n{\"k\": 1}\n",
	"JSIGHT 0.3\nENUM @e\n",
	"JSIGHT 0.3\nENUM @e\n[1, ",
	"JSIGHT 0.3\nMACRO @m\n(\n",
	"JSIGHT 0.3\nMACRO @m\n(\n  200 any\n)\nGET /a\n  PASTE ",
	"JSIGHT 0.3\nURL /a\n  Protocol json-rpc-2.0\n  Method ",
	"JSIGHT 0.3\nURL /a\n  Protocol json-rpc-2.0\n  Method m\n    Params\n",
	"JSIGHT 0.3\nTAG @t ",
	"JSIGHT 0.3\nGET /a\n  Tags ",
	"JSIGHT 0.3\n# comment ",
	"JSIGHT 0.3\n### block ",
	"JSIGHT 0.3\nINCLUDE ",
}

// HostileConstants are whole inputs known to be dangerous for parsers like
// this one.
var HostileConstants = []string{
	"", "(", ")", "/*/", "//", "GET /*/", "TYPE @a regex", "\"", "JSIGHT \"0.3", "\xef\xbb\xbfJSIGHT 0.3", "\r", "\n", "\r\n",
	"TYPE @a\n" + strings.Repeat("[", 5000), "TYPE @a\n" + strings.Repeat("{\"a\":", 3000),
	"JSIGHT 0.3\nINFO\n  Title \"" + strings.Repeat("x", 100000) + "\"",
	"JSIGHT 0.3\n" + strings.Repeat("TYPE @a\n{}\n", 3), "ENUM @e [ /* x *", "TYPE @t\n//", "Query\n/",
	"Description\n(\ntext", "TYPE @a regex\n/ax\\", "# a ## b\nJSIGHT 0.3", "JSIGHT 0.3\nENUM\n[1]",
	"MACRO @a\n(\nPASTE @b\n)\nMACRO @b\n(\nPASTE @a\n)\nPASTE @a",
	"MACRO @a\n(\nPASTE @b\n)\nMACRO @b\n(\nPASTE @a\n)\n",
	"JSIGHT 0.3\nGET /a\n  200\n    @dog |", "JSIGHT 0.3\nENUM @e\n[1] /* Request", "JSIGHT 0.3\nTYPE @a\n##", "JSIGHT 0.3\nENUM @e\n[1, /*/*",
	"JSIGHT 0.3\nTYPE @a\n//", "JSIGHT 0.3\nGET /a\n  Query\n/*/*",
	"INCLUDE", "INCLUDE \"\"", "INCLUDE .", "INCLUDE ..", "INCLUDE root.jst",
}

type CorpusFile struct {
	Path    string
	Content string
}

var corpusOnce sync.Once
var corpus []CorpusFile

// RepoDir is the library's working tree.
func RepoDir() string {
	if d := os.Getenv("VERIF_REPO"); d != "" {
		return d
	}
	return "/repo"
}

// Corpus returns the fixture files (< 4 KB) of the repository's test data,
// sorted by path. Included projects keep their directory so INCLUDEs resolve.
func Corpus() []CorpusFile {
	corpusOnce.Do(func() {
		root := filepath.Join(RepoDir(), "testdata")
		_ = filepath.Walk(root, func(p string, info os.FileInfo, err error) error {
			if err == nil && !info.IsDir() && strings.HasSuffix(p, ".jst") && info.Size() < 4096 {
				c, err := os.ReadFile(p)
				if err == nil {
					rel, _ := filepath.Rel(root, p)
					corpus = append(corpus, CorpusFile{Path: rel, Content: string(c)})
				}
			}
			return nil
		})
		sort.Slice(corpus, func(i, j int) bool { return corpus[i].Path < corpus[j].Path })
	})
	return corpus
}

// GenTokenSoup draws a sequence of tokens with random separators.
func GenTokenSoup(t *rapid.T, maxTokens int) string {
	n := rapid.IntRange(1, maxTokens).Draw(t, "ntok")
	var sb strings.Builder
	for i := 0; i < n; i++ {
		sb.WriteString(rapid.SampledFrom(Sigma).Draw(t, "tok"))
		switch rapid.IntRange(0, 5).Draw(t, "sep") {
		case 0, 1:
			sb.WriteByte(' ')
		case 2:
			sb.WriteByte('\n')
		case 3:
			sb.WriteString("\n  ")
		}
	}
	return sb.String()
}

// GenMutation draws a mutated fixture (or hostile constant).
func GenMutation(t *rapid.T) string {
	cc := Corpus()
	var src string
	if len(cc) == 0 || rapid.IntRange(0, 9).Draw(t, "hostile") == 0 {
		src = rapid.SampledFrom(HostileConstants).Draw(t, "hc")
	} else {
		src = cc[rapid.IntRange(0, len(cc)-1).Draw(t, "file")].Content
	}
	b := []byte(src)
	k := rapid.IntRange(0, 3).Draw(t, "nmut")
	for i := 0; i < k; i++ {
		b = mutateOnce(t, b)
	}
	return string(b)
}

func mutateOnce(t *rapid.T, b []byte) []byte {
	if len(b) == 0 {
		return []byte(rapid.SampledFrom(Sigma).Draw(t, "tok"))
	}
	p := rapid.IntRange(0, len(b)).Draw(t, "pos")
	switch rapid.IntRange(0, 8).Draw(t, "op") {
	case 0: // insert token
		tok := rapid.SampledFrom(Sigma).Draw(t, "tok")
		return append(append(append([]byte{}, b[:p]...), tok...), b[p:]...)
	case 1: // delete range
		q := p + rapid.IntRange(1, 20).Draw(t, "len")
		if q > len(b) {
			q = len(b)
		}
		return append(append([]byte{}, b[:p]...), b[q:]...)
	case 2: // truncate
		return append([]byte{}, b[:p]...)
	case 3: // delete a line
		lines := strings.Split(string(b), "\n")
		li := rapid.IntRange(0, len(lines)-1).Draw(t, "line")
		lines = append(lines[:li:li], lines[li+1:]...)
		return []byte(strings.Join(lines, "\n"))
	case 4: // duplicate a line range elsewhere
		lines := strings.Split(string(b), "\n")
		li := rapid.IntRange(0, len(lines)-1).Draw(t, "line")
		lj := li + rapid.IntRange(1, 4).Draw(t, "n")
		if lj > len(lines) {
			lj = len(lines)
		}
		at := rapid.IntRange(0, len(lines)).Draw(t, "at")
		nl := append([]string{}, lines[:at]...)
		nl = append(nl, lines[li:lj]...)
		nl = append(nl, lines[at:]...)
		return []byte(strings.Join(nl, "\n"))
	case 5: // replace byte
		c := append([]byte{}, b...)
		if p < len(c) {
			c[p] = rapid.Byte().Draw(t, "byte")
		}
		return c
	case 6: // newline convention
		s := strings.ReplaceAll(string(b), "\r\n", "\n")
		if rapid.Bool().Draw(t, "crlf") {
			return []byte(strings.ReplaceAll(s, "\n", "\r\n"))
		}
		return []byte(strings.ReplaceAll(s, "\n", "\r"))
	case 7: // move a line range
		lines := strings.Split(string(b), "\n")
		li := rapid.IntRange(0, len(lines)-1).Draw(t, "line")
		lj := li + rapid.IntRange(1, 4).Draw(t, "n")
		if lj > len(lines) {
			lj = len(lines)
		}
		seg := append([]string{}, lines[li:lj]...)
		rest := append(append([]string{}, lines[:li]...), lines[lj:]...)
		at := rapid.IntRange(0, len(rest)).Draw(t, "at")
		nl := append([]string{}, rest[:at]...)
		nl = append(nl, seg...)
		nl = append(nl, rest[at:]...)
		return []byte(strings.Join(nl, "\n"))
	default: // splice in a piece of another fixture
		cc := Corpus()
		if len(cc) == 0 {
			return b
		}
		o := cc[rapid.IntRange(0, len(cc)-1).Draw(t, "other")].Content
		if len(o) == 0 {
			return b
		}
		a := rapid.IntRange(0, len(o)-1).Draw(t, "a")
		e := a + rapid.IntRange(1, 60).Draw(t, "l")
		if e > len(o) {
			e = len(o)
		}
		return append(append(append([]byte{}, b[:p]...), o[a:e]...), b[p:]...)
	}
}

// EachTokenSeq enumerates prefix+tokens for every prefix and every token
// sequence over sigma of length 0..maxLen, smallest first. The joiner puts one
// space between tokens (tokens themselves include newlines). It stops when
// yield returns false.
func EachTokenSeq(prefixes, sigma []string, maxLen int, mine func(i int) bool, yield func(s string) bool) {
	idx := 0
	for l := 0; l <= maxLen; l++ {
		for _, p := range prefixes {
			seq := make([]int, l)
			for {
				if mine(idx) {
					var sb strings.Builder
					sb.WriteString(p)
					for k, ti := range seq {
						if k > 0 {
							sb.WriteByte(' ')
						}
						sb.WriteString(sigma[ti])
					}
					if !yield(sb.String()) {
						return
					}
				}
				idx++
				// next sequence
				k := l - 1
				for k >= 0 {
					seq[k]++
					if seq[k] < len(sigma) {
						break
					}
					seq[k] = 0
					k--
				}
				if k < 0 {
					break
				}
			}
		}
	}
}

// EachLongLine enumerates documents whose diagnostic lies on a line around
// the length at which the quoted source line is cut (200 bytes): three line
// shapes x filler length 185..205 x 0..10 tail bytes of nine classes (UTF-8
// continuation and lead bytes, complete 2- and 3-byte characters, ASCII) x
// line end (none, LF, CRLF) x last line or not.
func EachLongLine(mine func(int) bool, yield func(string) bool) {
	shapes := []struct{ head, close string }{
		{"JSIGHT 0.3\nGET /", ""},            // invalid UTF-8 / stray bytes in a path
		{"JSIGHT 0.3\nZ", ""},                // unknown directive at the line start
		{"JSIGHT 0.3\nINFO\n  Title \"", ""}, // unterminated quote
	}
	tails := []string{"\x80", "\xbf", "\xc3", "\xe2", "\xff", "é", "€", "a", " "}
	idx := 0
	for _, sh := range shapes {
		for n := 185; n <= 205; n++ {
			for m := 0; m <= 10; m++ {
				for _, tl := range tails {
					for _, end := range []string{"", "\n", "\r\n"} {
						for _, after := range []string{"", "TYPE @t\n{}\n"} {
							if end == "" && after != "" {
								continue
							}
							idx++
							if !mine(idx) {
								continue
							}
							var sb strings.Builder
							sb.WriteString(sh.head)
							sb.WriteString(strings.Repeat("a", n))
							sb.WriteString(strings.Repeat(tl, m))
							sb.WriteString(sh.close + end + after)
							if !yield(sb.String()) {
								return
							}
						}
					}
				}
			}
		}
	}
}

// GenRuleSoup draws a document whose schema bodies carry rule comments drawn
// from a grammar of rule names and well- and ill-shaped rule values (scalars,
// type names, lists, nested rule objects), in every host that takes a schema.
func GenRuleSoup(t *rapid.T) string {
	typeNames := []string{"integer", "string", "float", "boolean", "any", "mixed", "enum", "object", "array", "null", "email", "uri", "date", "datetime", "uuid", "decimal", "@t", "@e", "@s", "@undefined", "", "@"}
	ruleNames := []string{"type", "or", "enum", "allOf", "optional", "nullable", "min", "max", "minLength", "maxLength", "regex", "additionalProperties", "const", "precision", "exclusiveMinimum", "exclusiveMaximum", "minItems", "maxItems", "serializeFormat", "serializedType", "nosuchrule"}
	var ruleVal func(depth int) string
	ruleObj := func(depth int) string {
		n := rapid.IntRange(0, 2).Draw(t, "nInner")
		var parts []string
		for i := 0; i < n; i++ {
			parts = append(parts, rapid.SampledFrom(ruleNames).Draw(t, "innerRule")+": "+ruleVal(depth+1))
		}
		return "{" + strings.Join(parts, ", ") + "}"
	}
	ruleVal = func(depth int) string {
		k := rapid.IntRange(0, 7).Draw(t, "valKind")
		if depth >= 2 && k >= 5 {
			k = 0
		}
		switch k {
		case 0:
			return fmt.Sprintf("%q", rapid.SampledFrom(typeNames).Draw(t, "typeName"))
		case 1:
			return rapid.SampledFrom([]string{"0", "1", "-1", "2.5", "100", "1e3"}).Draw(t, "num")
		case 2:
			return rapid.SampledFrom([]string{"true", "false", "null"}).Draw(t, "lit")
		case 3:
			return rapid.SampledFrom([]string{"@t", "@e", "@s", "@undefined"}).Draw(t, "bareName")
		case 4:
			return rapid.SampledFrom([]string{"\"^a+$\"", "\"\"", "\"(\"", "\"x\""}).Draw(t, "str")
		case 5:
			n := rapid.IntRange(0, 3).Draw(t, "nList")
			var items []string
			for i := 0; i < n; i++ {
				items = append(items, ruleVal(depth+1))
			}
			return "[" + strings.Join(items, ", ") + "]"
		default:
			return ruleObj(depth)
		}
	}
	// shaped: most of the time a rule gets a value of the shape it expects
	shaped := func(name string) string {
		if rapid.IntRange(0, 3).Draw(t, "anyShape") == 0 {
			return ruleVal(0)
		}
		tn := func() string { return fmt.Sprintf("%q", rapid.SampledFrom(typeNames).Draw(t, "typeName")) }
		switch name {
		case "type", "serializedType":
			return tn()
		case "or":
			n := rapid.IntRange(1, 3).Draw(t, "nAlt")
			var items []string
			for i := 0; i < n; i++ {
				switch rapid.IntRange(0, 3).Draw(t, "altKind") {
				case 0:
					items = append(items, tn())
				case 1:
					items = append(items, "{type: "+tn()+"}")
				case 2:
					items = append(items, rapid.SampledFrom([]string{"{min: 1}", "{minLength: 1}", "{}", "{enum: [1, 2]}", "{regex: \"^a$\"}", "{type: \"integer\", min: 1}"}).Draw(t, "altObj"))
				default:
					items = append(items, ruleObj(1))
				}
			}
			return "[" + strings.Join(items, ", ") + "]"
		case "enum":
			return rapid.SampledFrom([]string{"@e", "[1, 2]", "[\"a\", \"s\"]", "[]", "@undefined", "[1, \"s\", true, null]"}).Draw(t, "enumVal")
		case "allOf":
			return rapid.SampledFrom([]string{"\"@t\"", "[\"@t\"]", "[\"@t\", \"@s\"]", "\"@undefined\"", "[]", "\"@a\""}).Draw(t, "allOfVal")
		case "optional", "nullable", "additionalProperties", "exclusiveMinimum", "exclusiveMaximum":
			return rapid.SampledFrom([]string{"true", "false", "\"any\"", "\"@t\""}).Draw(t, "boolVal")
		case "regex":
			return rapid.SampledFrom([]string{"\"^a+$\"", "\"\"", "\"(\"", "\"s\""}).Draw(t, "reVal")
		case "const":
			return rapid.SampledFrom([]string{"true", "false"}).Draw(t, "constVal")
		}
		return rapid.SampledFrom([]string{"0", "1", "-1", "2.5", "100"}).Draw(t, "numVal")
	}
	rules := func() string {
		n := rapid.IntRange(0, 3).Draw(t, "nRules")
		if n == 0 {
			return ""
		}
		var parts []string
		for i := 0; i < n; i++ {
			name := rapid.SampledFrom(ruleNames).Draw(t, "rule")
			if rapid.IntRange(0, 2).Draw(t, "favourite") == 0 {
				name = rapid.SampledFrom([]string{"or", "type", "enum", "allOf", "optional"}).Draw(t, "favRule")
			}
			parts = append(parts, name+": "+shaped(name))
		}
		return " // {" + strings.Join(parts, ", ") + "}"
	}
	value := func() string {
		return rapid.SampledFrom([]string{"1", "\"s\"", "true", "null", "1.5", "{}", "[]", "@t", "@e", "[1]", "{\"n\": 1}", "[@t]", "@t | @s", "\"a@b.c\""}).Draw(t, "value")
	}
	body := func(ind string, keys []string) string {
		var sb strings.Builder
		switch rapid.IntRange(0, 5).Draw(t, "bodyShape") {
		case 0:
			return ind + value() + rules() + "\n"
		case 1:
			return ind + "[" + rules() + "\n" + ind + "  " + value() + rules() + "\n" + ind + "]\n"
		}
		top := ""
		if rapid.IntRange(0, 2).Draw(t, "topRules") == 0 {
			top = rules()
		}
		sb.WriteString(ind + "{" + top + "\n")
		n := rapid.IntRange(1, len(keys)).Draw(t, "nProps")
		for i := 0; i < n; i++ {
			comma := ","
			if i == n-1 {
				comma = ""
			}
			sb.WriteString(fmt.Sprintf("%s  %q: %s%s%s\n", ind, keys[i], value(), comma, rules()))
		}
		sb.WriteString(ind + "}\n")
		return sb.String()
	}
	var sb strings.Builder
	sb.WriteString("JSIGHT 0.3\n")
	if rapid.IntRange(0, 3).Draw(t, "declT") > 0 {
		sb.WriteString("TYPE @t\n" + body("", []string{"a", "b"}))
	}
	if rapid.IntRange(0, 3).Draw(t, "declS") > 0 {
		sb.WriteString("TYPE @s\n  \"x\"" + rules() + "\n")
	}
	if rapid.IntRange(0, 3).Draw(t, "declE") > 0 {
		sb.WriteString("ENUM @e\n[1, \"a\"]\n")
	}
	keys := []string{"id", "a", "b"}
	switch rapid.IntRange(0, 8).Draw(t, "host") {
	case 0:
		sb.WriteString("TYPE @a\n" + body("", keys))
	case 1:
		sb.WriteString("GET /x/{id}\n  Path\n" + body("  ", keys[:1]) + "  200 any\n")
	case 2:
		sb.WriteString("URL /x/{id}/{a}\n  Path\n" + body("  ", keys[:2]) + "  GET\n    200 any\n")
	case 3:
		sb.WriteString("GET /x\n  Query\n" + body("  ", keys) + "  200 any\n")
	case 4:
		sb.WriteString("POST /x\n  Request\n    Headers\n" + body("    ", keys) + "    Body\n" + body("    ", keys) + "  200 any\n")
	case 5:
		sb.WriteString("GET /x\n  200\n" + body("  ", keys) + "  404\n    Headers\n" + body("    ", keys) + "    Body any\n")
	case 6:
		sb.WriteString("URL /r\n  Protocol json-rpc-2.0\n  Method m\n    Params\n" + body("    ", keys) + "    Result\n" + body("    ", keys))
	case 7:
		sb.WriteString("MACRO @m\n(\n  Path\n" + body("  ", keys[:1]) + ")\nGET /x/{id}\n  PASTE @m\n  200 any\n")
	default:
		sb.WriteString("POST /x/{id}\n  Request\n" + body("  ", keys) + "  Path\n" + body("  ", keys[:1]))
	}
	return sb.String()
}
