package vlib

import (
	"fmt"

	"pgregory.net/rapid"
)

// Fault describes one injected static fault.
type Fault struct {
	Kind string `json:"kind"`
	// Offenders: IDs of the directives at fault; the diagnostic must lie in the
	// span of one of them.
	Offenders []int `json:"offenders"`
	// Route: direct | in-macro (the fault sits in a macro body that is pasted) |
	// in-parenthesised | on-hoisted
	Route string `json:"route"`
	Note  string `json:"note,omitempty"`
}

type faultSite struct {
	kind  string
	apply func() []int // mutates the document, returns offender IDs
}

type faulter struct {
	t    *rapid.T
	doc  *Doc
	next int
}

func (f *faulter) id() int { f.next++; return f.next }

func (f *faulter) fresh(d *Dir) *Dir {
	c := d.Copy()
	var rec func(x *Dir)
	rec = func(x *Dir) {
		x.ID = f.id()
		for _, ch := range x.Children {
			rec(ch)
		}
	}
	rec(c)
	return c
}

func insertAfter(list []*Dir, i int, d *Dir) []*Dir {
	out := append([]*Dir{}, list[:i+1]...)
	out = append(out, d)
	return append(out, list[i+1:]...)
}

// parentOf finds the list that holds d (top level or some parent's children).
func (doc *Doc) listOf(d *Dir) (*[]*Dir, int) {
	for i, x := range doc.Top {
		if x == d {
			return &doc.Top, i
		}
	}
	var res *[]*Dir
	idx := -1
	doc.Walk(func(p, _ *Dir) {
		for i, c := range p.Children {
			if c == d {
				res, idx = &p.Children, i
			}
		}
	})
	return res, idx
}

var singletonKinds = map[string]bool{"Title": true, "Version": true, "Description": true, "Query": true, "Path": true, "Protocol": true, "Body": true, "Headers": true, "BaseUrl": true}

// FaultKinds lists every kind the injector knows (for class requirements).
var FaultKinds = []string{
	"dup-TYPE", "dup-ENUM", "dup-MACRO", "dup-SERVER", "dup-TAG", "dup-method-in-url", "dup-method-path-bearing", "dup-URL-path",
	"similar-path", "second-Title", "second-Version", "second-Description", "second-Query", "second-Path", "second-Protocol",
	"second-Body", "second-Headers", "second-BaseUrl", "second-Path-other-key",
	"omit-param-TYPE", "omit-param-ENUM", "omit-param-MACRO", "omit-param-PASTE", "omit-param-TAG", "omit-param-Tags", "omit-param-Protocol",
	"omit-param-Method", "omit-param-JSIGHT", "omit-param-BaseUrl", "omit-param-SERVER", "omit-param-Title", "omit-param-Version", "omit-param-URL",
	"undefined-type-shortcut", "undefined-type-array", "undefined-type-rule", "undefined-type-allOf", "undefined-type-param", "undefined-type-or",
	"undefined-enum", "undefined-macro", "undefined-tag", "undefined-tag-like-auto", "undefined-tag-second-Tags", "similar-path-leading-param", "dup-through-second-PASTE", "second-Body-after-own-body", "second-Title-after-empty-value", "second-Version-after-empty-value", "bad-rule-value-in-used-type", "path-property-of-object-type",
}

// InjectFault puts exactly one fault of a drawn kind into a copy of the valid
// document. ok is false when the document offers no site at all.
func InjectFault(t *rapid.T, doc0 *Doc) (*Doc, Fault, bool) {
	return InjectFaultOfKind(t, doc0, "")
}

// InjectFaultOfKind is InjectFault restricted to one kind ("" = any).
func InjectFaultOfKind(t *rapid.T, doc0 *Doc, only string) (*Doc, Fault, bool) {
	doc := doc0.Copy()
	f := &faulter{t: t, doc: doc, next: doc.MaxID() + 1000}
	var sites []faultSite
	add := func(kind string, apply func() []int) { sites = append(sites, faultSite{kind, apply}) }

	pastedMacros := ReachableMacros(doc)
	// unitEnd: a duplicate of a top-level block is inserted after its unit
	insertTopAfter := func(d *Dir, c *Dir) {
		for i, x := range doc.Top {
			if x == d {
				j := i
				for j+1 < len(doc.Top) && doc.Top[j+1].Hoisted {
					j++
				}
				// random later position keeps the relation interesting
				pos := j + rapid.IntRange(0, len(doc.Top)-1-j).Draw(t, "dupPos")
				for pos+1 < len(doc.Top) && doc.Top[pos+1].Hoisted {
					pos++
				}
				doc.Top = insertAfter(doc.Top, pos, c)
				return
			}
		}
	}

	doc.Walk(func(d, parent *Dir) {
		switch d.Kw {
		case "TYPE", "ENUM", "MACRO", "SERVER", "TAG":
			if parent == nil && len(d.Params) > 0 {
				add("dup-"+d.Kw, func() []int {
					c := f.fresh(d)
					insertTopAfter(d, c)
					return []int{d.ID, c.ID}
				})
				add("omit-param-"+d.Kw, func() []int { d.Params = nil; return []int{d.ID} })
			}
		case "URL":
			if parent == nil && len(d.Params) > 0 {
				add("dup-URL-path", func() []int {
					c := &Dir{ID: f.id(), Kw: "URL", Params: append([]string{}, d.Params...)}
					g := &Dir{ID: f.id(), Kw: "DELETE"}
					c.Children = []*Dir{g}
					// the duplicate must not also duplicate a method: use a verb the original lacks
					for _, vb := range []string{"DELETE", "PATCH", "PUT", "POST", "GET"} {
						has := false
						for _, ch := range d.Children {
							if ch.Kw == vb {
								has = true
							}
						}
						if !has && d.Child("Protocol") == nil {
							g.Kw = vb
							break
						}
					}
					if d.Child("Protocol") != nil {
						c.Children = []*Dir{{ID: f.id(), Kw: "Protocol", Params: []string{"json-rpc-2.0"}}, {ID: f.id(), Kw: "Method", Params: []string{fmt.Sprintf("zz%d", f.id())}}}
					}
					insertTopAfter(d, c)
					return []int{d.ID, c.ID}
				})
				add("omit-param-URL", func() []int { d.Params = nil; return []int{d.ID} })
				names, _ := PathParamsOf(d.Params[0])
				if len(names) > 0 && d.Child("Protocol") == nil {
					add("similar-path", func() []int {
						p := d.Params[0]
						// rename the first parameter
						np := replaceFirst(p, "{"+names[0]+"}", "{zz"+names[0]+"}")
						c := &Dir{ID: f.id(), Kw: "GET", Params: []string{np}}
						c.Children = []*Dir{{ID: f.id(), Kw: "200", Schema: &Schema{Notation: "any", AsParam: true}}}
						doc.Top = append(doc.Top, c)
						return []int{d.ID, c.ID}
					})
				}
			}
		case "PASTE":
			add("omit-param-PASTE", func() []int { d.Params = nil; return []int{d.ID} })
		case "Tags":
			if parent != nil && (IsVerb(parent.Kw) || parent.Kw == "Method") {
				add("undefined-tag-second-Tags", func() []int {
					td := &Dir{ID: f.id(), Kw: "Tags", Params: []string{"@undefinedTag"}}
					lst, i := doc.listOf(d)
					*lst = insertAfter(*lst, i, td)
					return []int{td.ID}
				})
			}
			add("omit-param-Tags", func() []int { d.Params = nil; return []int{d.ID} })
			add("undefined-tag", func() []int { d.Params = append(d.Params, "@undefinedTag"); return []int{d.ID} })
		case "Protocol", "Method", "JSIGHT", "BaseUrl", "Title", "Version":
			add("omit-param-"+d.Kw, func() []int { d.Params = nil; return []int{d.ID} })
		}
		if IsVerb(d.Kw) {
			if parent != nil && parent.Kw == "URL" {
				add("dup-method-in-url", func() []int {
					c := &Dir{ID: f.id(), Kw: d.Kw}
					c.Children = []*Dir{{ID: f.id(), Kw: "200", Schema: &Schema{Notation: "any", AsParam: true}}}
					parent.Children = append(parent.Children, c)
					return []int{d.ID, c.ID}
				})
				if parent.Child("Protocol") == nil && len(parent.Params) > 0 {
					add("dup-method-path-bearing", func() []int {
						c := &Dir{ID: f.id(), Kw: d.Kw, Params: []string{parent.Params[0]}}
						c.Children = []*Dir{{ID: f.id(), Kw: "200", Schema: &Schema{Notation: "any", AsParam: true}}}
						doc.Top = append(doc.Top, c)
						return []int{d.ID, c.ID}
					})
				}
			} else if parent == nil && len(d.Params) > 0 {
				add("dup-method-path-bearing", func() []int {
					c := &Dir{ID: f.id(), Kw: d.Kw, Params: []string{d.Params[0]}}
					c.Children = []*Dir{{ID: f.id(), Kw: "204", Schema: &Schema{Notation: "empty", AsParam: true}}}
					doc.Top = append(doc.Top, c)
					return []int{d.ID, c.ID}
				})
			}
			if d.Child("Tags") == nil {
				// Tags naming the automatic tag of another (untagged) interaction's path
				var autoNames []string
				doc.Walk(func(x, xp *Dir) {
					if IsVerb(x.Kw) && x != d && x.Child("Tags") == nil && (xp == nil || xp.Child("Tags") == nil) {
						path := ""
						if len(x.Params) > 0 {
							path = x.Params[0]
						} else if xp != nil && len(xp.Params) > 0 {
							path = xp.Params[0]
						}
						if n, _ := AutoTagOf(path); path != "" {
							autoNames = append(autoNames, n)
						}
					}
				})
				declaredTag := map[string]bool{}
				doc.Walk(func(x, _ *Dir) {
					if x.Kw == "TAG" && len(x.Params) > 0 {
						declaredTag[x.Params[0]] = true
					}
				})
				for _, an := range autoNames {
					if !declaredTag[an] {
						an := an
						add("undefined-tag-like-auto", func() []int {
							td := &Dir{ID: f.id(), Kw: "Tags", Params: []string{an}}
							d.Children = append([]*Dir{td}, d.Children...)
							return []int{td.ID}
						})
						break
					}
				}
			}
			if d.Child("Tags") == nil && len(d.Children) > 0 {
				add("undefined-tag", func() []int {
					td := &Dir{ID: f.id(), Kw: "Tags", Params: []string{"@undefinedTag"}}
					d.Children = append([]*Dir{td}, d.Children...)
					return []int{td.ID}
				})
			}
			// an undefined macro pasted first in the method
			add("undefined-macro", func() []int {
				pd := &Dir{ID: f.id(), Kw: "PASTE", Params: []string{"@undefinedMacro"}}
				d.Children = append([]*Dir{pd}, d.Children...)
				return []int{pd.ID}
			})
		}
		if singletonKinds[d.Kw] && parent != nil {
			kind := "second-" + d.Kw
			add(kind, func() []int {
				c := f.fresh(d)
				lst, i := doc.listOf(d)
				// directly after the original, or at the end of the sibling list
				if rapid.Bool().Draw(t, "dupAtEnd") {
					*lst = append(*lst, c)
				} else {
					*lst = insertAfter(*lst, i, c)
				}
				return []int{d.ID, c.ID}
			})
		}
		if (d.Kw == "Title" || d.Kw == "Version") && parent != nil {
			// the first one has an empty (quoted) value, a second one follows
			add("second-"+d.Kw+"-after-empty-value", func() []int {
				c := f.fresh(d)
				lst, i := doc.listOf(d)
				*lst = insertAfter(*lst, i, c)
				d.Params = []string{""}
				return []int{d.ID, c.ID}
			})
		}
		if (IsCode(d.Kw) || d.Kw == "Request") && d.Schema != nil && d.Child("Body") == nil {
			// the body is given on the directive itself and once more as a Body child
			add("second-Body-after-own-body", func() []int {
				c := &Dir{ID: f.id(), Kw: "Body", Schema: &Schema{Notation: "any", AsParam: true}}
				d.Children = append(d.Children, c)
				return []int{d.ID, c.ID}
			})
		}
		if d.Kw == "Path" && parent != nil && d.Schema != nil && d.Schema.Obj != nil && len(d.Schema.Obj.Props) >= 1 {
			// a path parameter described by an object type: the fault belongs to this
			// Path directive, whichever other Path directives describe the same path
			add("path-property-of-object-type", func() []int {
				tn := ""
				for _, x := range doc.Top {
					if x.Kw == "TYPE" && x.Schema != nil && x.Schema.Root == "obj" && len(x.Params) > 0 {
						tn = x.Params[0]
					}
				}
				if tn == "" {
					tn = fmt.Sprintf("@zzobj%d", f.id())
					doc.Top = append(doc.Top, &Dir{ID: f.id(), Kw: "TYPE", Params: []string{tn}, Schema: &Schema{Notation: "jsight", Root: "obj", Obj: &Obj{Props: []Prop{{Key: "k", V: Val{Kind: "int", Int: 1}}}}}})
				}
				i := rapid.IntRange(0, len(d.Schema.Obj.Props)-1).Draw(t, "pathProp")
				d.Schema.Obj.Props[i].V = Val{Kind: "ref", Ref: tn}
				return []int{d.ID}
			})
		}
		if d.Kw == "Path" && parent != nil && d.Schema != nil && d.Schema.Obj != nil && len(d.Schema.Obj.Props) >= 2 {
			// two Path directives under one parent, each declaring its own
			// parameters: the second one is written after the parent's other
			// children (which may hold a Path of their own)
			add("second-Path-other-key", func() []int {
				o := d.Schema.Obj
				last := o.Props[len(o.Props)-1]
				o.Props = o.Props[:len(o.Props)-1]
				c := &Dir{ID: f.id(), Kw: "Path", Schema: &Schema{Notation: "jsight", Root: "obj", Obj: &Obj{Props: []Prop{last}}}}
				parent.Children = append(parent.Children, c)
				return []int{d.ID, c.ID}
			})
		}
		// undefined references inside schemas
		if s := d.Schema; s != nil && s.Notation == "jsight" {
			switch s.Root {
			case "ref":
				kind := "undefined-type-shortcut"
				if s.AsParam {
					kind = "undefined-type-param"
				}
				add(kind, func() []int { s.Ref = "@undefinedType"; return []int{d.ID} })
			case "arrref":
				kind := "undefined-type-array"
				if s.AsParam {
					kind = "undefined-type-param"
				}
				add(kind, func() []int { s.Ref = "@undefinedType"; return []int{d.ID} })
			case "or":
				add("undefined-type-or", func() []int { s.Ref2 = "@undefinedType"; return []int{d.ID} })
			case "obj":
				var inObj func(o *Obj)
				inObj = func(o *Obj) {
					if len(o.AllOf) > 0 {
						add("undefined-type-allOf", func() []int { o.AllOf[len(o.AllOf)-1] = "@undefinedType"; return []int{d.ID} })
					}
					for i := range o.Props {
						p := &o.Props[i]
						switch p.V.Kind {
						case "ref":
							add("undefined-type-shortcut", func() []int { p.V.Ref = "@undefinedType"; return []int{d.ID} })
						case "arrref":
							add("undefined-type-array", func() []int { p.V.Ref = "@undefinedType"; return []int{d.ID} })
						case "or":
							add("undefined-type-or", func() []int { p.V.Ref = "@undefinedType"; return []int{d.ID} })
						case "typed":
							add("undefined-type-rule", func() []int { p.V.Ref = "@undefinedType"; return []int{d.ID} })
						case "enumstr":
							add("undefined-enum", func() []int { p.V.Enum = "@undefinedEnum"; return []int{d.ID} })
						case "obj", "arrobj":
							inObj(p.V.Obj)
						}
					}
				}
				inObj(s.Obj)
			}
		}
	})
	// two new methods whose paths differ only in the name of a leading parameter
	add("similar-path-leading-param", func() []int {
		a := &Dir{ID: f.id(), Kw: "GET", Params: []string{"/{zztenant}/zzcats"}, Children: []*Dir{{ID: f.id(), Kw: "200", Schema: &Schema{Notation: "any", AsParam: true}}}}
		b := &Dir{ID: f.id(), Kw: "GET", Params: []string{"/{zzorg}/zzdogs"}, Children: []*Dir{{ID: f.id(), Kw: "200", Schema: &Schema{Notation: "any", AsParam: true}}}}
		doc.Top = append(doc.Top, a, b)
		return []int{a.ID, b.ID}
	})
	// undefined macro pasted somewhere inside the tree (any directive that admits a PASTE)
	doc.Walk(func(d, parent *Dir) {
		if d.Kw == "MACRO" || d.Kw == "PASTE" || d.Kw == "INCLUDE" || !DocAdmits(d.Kw, "PASTE") {
			return
		}
		for p := parent; p != nil; p = doc.parentOf(p) {
			if p.Kw == "MACRO" {
				return // inside a macro body the route matters; kept to the existing sites
			}
		}
		add("undefined-macro", func() []int {
			pd := &Dir{ID: f.id(), Kw: "PASTE", Params: []string{"@undefinedMacro"}}
			pos := rapid.IntRange(0, len(d.Children)).Draw(t, "pastePos")
			for pos < len(d.Children) && d.Children[pos].Hoisted {
				pos++
			}
			kids := append([]*Dir{}, d.Children[:pos]...)
			kids = append(kids, pd)
			d.Children = append(kids, d.Children[pos:]...)
			return []int{pd.ID}
		})
	})
	// top-level undefined macro
	add("undefined-macro", func() []int {
		pd := &Dir{ID: f.id(), Kw: "PASTE", Params: []string{"@undefinedMacro"}}
		doc.Top = insertAfter(doc.Top, 0, pd)
		return []int{pd.ID}
	})
	// a chain of fresh types, each used by the previous one, with a rule whose
	// value has the wrong type in one of the used ones: the diagnostic belongs to
	// that type's directive however deep it is used and wherever it is declared
	add("bad-rule-value-in-used-type", func() []int {
		n := f.id()
		depth := rapid.IntRange(2, 4).Draw(t, "chainDepth")
		faultAt := rapid.IntRange(1, depth-1).Draw(t, "chainFaultAt")
		var dirs []*Dir
		var off []int
		for i := 0; i < depth; i++ {
			name := fmt.Sprintf("@zzchain%d_%d", n, i)
			var body []string
			switch {
			case i == faultAt:
				body = []string{"{", "  \"n\": 1 // {min: \"zz\"}", "}"}
			default:
				body = []string{"{", "  \"k\": 1", "}"}
			}
			if i+1 < depth {
				body = append(body[:len(body)-1], fmt.Sprintf("  , \"next\": @zzchain%d_%d", n, i+1), "}")
			}
			d := &Dir{ID: f.id(), Kw: "TYPE", Params: []string{name}, Schema: &Schema{Notation: "jsight", Raw: body}}
			if i == faultAt {
				off = []int{d.ID}
			}
			dirs = append(dirs, d)
		}
		for _, d := range dirs {
			pos := rapid.IntRange(0, len(doc.Top)-1).Draw(t, "chainPos")
			for pos+1 < len(doc.Top) && doc.Top[pos+1].Hoisted {
				pos++
			}
			doc.Top = insertAfter(doc.Top, pos, d)
		}
		return off
	})
	// one declaration brought in twice by PASTE: the same macro pasted a second
	// time, directly or through another macro
	add("dup-through-second-PASTE", func() []int {
		n := f.id()
		var decl *Dir
		switch rapid.IntRange(0, 3).Draw(t, "declKind") {
		case 0:
			decl = &Dir{ID: f.id(), Kw: "ENUM", Params: []string{fmt.Sprintf("@zzenum%d", n)}, Enum: []EnumVal{{IsInt: true, Int: 1}}}
		case 1:
			decl = &Dir{ID: f.id(), Kw: "TYPE", Params: []string{fmt.Sprintf("@zztype%d", n)}, Schema: &Schema{Notation: "jsight", Root: "obj", Obj: &Obj{}}}
		case 2:
			decl = &Dir{ID: f.id(), Kw: "TAG", Params: []string{fmt.Sprintf("@zztag%d", n)}}
		default:
			decl = &Dir{ID: f.id(), Kw: "SERVER", Params: []string{fmt.Sprintf("@zzserver%d", n)}, Children: []*Dir{{ID: f.id(), Kw: "BaseUrl", Params: []string{"https://zz.example/"}}}}
		}
		mname := fmt.Sprintf("@zzmacro%d", n)
		m := &Dir{ID: f.id(), Kw: "MACRO", Params: []string{mname}, Explicit: true, Children: []*Dir{decl}}
		p1 := &Dir{ID: f.id(), Kw: "PASTE", Params: []string{mname}}
		p2 := &Dir{ID: f.id(), Kw: "PASTE", Params: []string{mname}}
		off := []int{decl.ID, p1.ID, p2.ID}
		units := []*Dir{m, p1}
		if rapid.Bool().Draw(t, "throughAnotherMacro") {
			wname := fmt.Sprintf("@zzwrap%d", n)
			inner := &Dir{ID: f.id(), Kw: "PASTE", Params: []string{mname}}
			w := &Dir{ID: f.id(), Kw: "MACRO", Params: []string{wname}, Explicit: true, Children: []*Dir{inner}}
			p2.Params = []string{wname}
			off = append(off, inner.ID)
			units = append(units, w)
		}
		units = append(units, p2)
		// each unit at a drawn top-level position after the JSIGHT line (macros may be used before they are defined)
		for _, u := range units {
			pos := rapid.IntRange(0, len(doc.Top)-1).Draw(t, "unitPos")
			for pos+1 < len(doc.Top) && doc.Top[pos+1].Hoisted {
				pos++
			}
			doc.Top = insertAfter(doc.Top, pos, u)
		}
		return off
	})
	if len(sites) == 0 {
		return doc, Fault{}, false
	}
	// choose a kind first (uniform over kinds present), then a site of that kind:
	// otherwise frequent kinds (undefined references) crowd out the rare ones
	byKind := map[string][]faultSite{}
	var kinds []string
	for _, s := range sites {
		if only != "" && s.kind != only {
			continue
		}
		if _, ok := byKind[s.kind]; !ok {
			kinds = append(kinds, s.kind)
		}
		byKind[s.kind] = append(byKind[s.kind], s)
	}
	if len(kinds) == 0 {
		return doc, Fault{}, false
	}
	kind := kinds[rapid.IntRange(0, len(kinds)-1).Draw(t, "faultKind")]
	ss := byKind[kind]
	site := ss[rapid.IntRange(0, len(ss)-1).Draw(t, "faultSite")]
	off := site.apply()
	pastedMacros = ReachableMacros(doc)
	fault := Fault{Kind: kind, Offenders: off, Route: "direct"}
	// route classification
	offSet := map[int]bool{}
	for _, o := range off {
		offSet[o] = true
	}
	doc.Walk(func(d, _ *Dir) {
		if !offSet[d.ID] {
			return
		}
		inMacro := ""
		paren := false
		for p := doc.parentOf(d); p != nil; p = doc.parentOf(p) {
			if p.Kw == "MACRO" {
				inMacro = "in-unused-macro"
				if len(p.Params) > 0 && pastedMacros[p.Params[0]] {
					inMacro = "in-pasted-macro"
				}
			} else if p.Explicit {
				paren = true
			}
		}
		switch {
		case inMacro != "":
			if fault.Route != "in-pasted-macro" {
				fault.Route = inMacro
			}
		case paren && fault.Route == "direct":
			fault.Route = "in-parenthesised"
		}
		if d.Hoisted && fault.Route == "direct" {
			fault.Route = "on-hoisted"
		}
	})
	if !doc.FixContexts() {
		return doc, fault, false
	}
	return doc, fault, true
}

func replaceFirst(s, old, new string) string {
	for i := 0; i+len(old) <= len(s); i++ {
		if s[i:i+len(old)] == old {
			return s[:i] + new + s[i+len(old):]
		}
	}
	return s
}

func (doc *Doc) parentOf(d *Dir) *Dir {
	var res *Dir
	doc.Walk(func(x, p *Dir) {
		if x == d {
			res = p
		}
	})
	return res
}

// declaredPrefixes: the parameter prefixes that already have a Path property.
func declaredPrefixes(doc *Doc) map[string]bool {
	out := map[string]bool{}
	var rec func(d *Dir, hp string)
	rec = func(d *Dir, hp string) {
		if (d.Kw == "URL" || IsVerb(d.Kw)) && len(d.Params) > 0 {
			hp = d.Params[0]
		}
		if d.Kw == "Path" && d.Schema != nil && d.Schema.Obj != nil {
			names, prefixes := PathParamsOf(hp)
			for _, p := range d.Schema.Obj.Props {
				for i, n := range names {
					if n == p.Key {
						out[prefixes[i]] = true
					}
				}
			}
		}
		for _, c := range d.Children {
			rec(c, hp)
		}
	}
	for _, d := range doc.Top {
		rec(d, "")
	}
	return out
}

// ReachableMacros: the macros pasted from outside any macro, directly or
// through other reachable macros.
func ReachableMacros(doc *Doc) map[string]bool {
	bodies := map[string]*Dir{}
	for _, d := range doc.Top {
		if d.Kw == "MACRO" && len(d.Params) > 0 {
			bodies[d.Params[0]] = d
		}
	}
	reach := map[string]bool{}
	var visit func(d *Dir)
	visit = func(d *Dir) {
		if d.Kw == "PASTE" && len(d.Params) > 0 && !reach[d.Params[0]] {
			reach[d.Params[0]] = true
			if b := bodies[d.Params[0]]; b != nil {
				for _, c := range b.Children {
					visit(c)
				}
			}
		}
		for _, c := range d.Children {
			visit(c)
		}
	}
	for _, d := range doc.Top {
		if d.Kw != "MACRO" {
			visit(d)
		}
	}
	return reach
}

// InjectBodyFault removes the body of a request or response (the Headers, if
// any, stay). Such documents are outside the C11 list; they matter for C09:
// if one is accepted, the catalog has a request / response without a body.
func InjectBodyFault(t *rapid.T, doc0 *Doc) (*Doc, bool) {
	doc := doc0.Copy()
	var sites []func()
	doc.Walk(func(d, parent *Dir) {
		if d.Kw == "ENUM" && d.Enum != nil {
			// a declaration that lost its body; moved to the end of the file half of
			// the time (the last line of a file is read a little differently)
			sites = append(sites, func() {
				d.Enum = nil
				if parent == nil && rapid.Bool().Draw(t, "enumLast") {
					var top []*Dir
					for _, x := range doc.Top {
						if x != d {
							top = append(top, x)
						}
					}
					doc.Top = append(top, d)
				}
			})
		}
		if d.Kw != "Request" && !IsCode(d.Kw) {
			return
		}
		if d.Schema != nil {
			sites = append(sites, func() { d.Schema = nil })
			sites = append(sites, func() {
				d.Schema = nil
				d.Children = append([]*Dir{{ID: doc.MaxID() + 1, Kw: "Headers", Schema: &Schema{Notation: "jsight", Root: "obj", Obj: &Obj{Props: []Prop{{Key: "X-h", V: Val{Kind: "str", Str: "v"}}}}}}}, d.Children...)
			})
		} else if b := d.Child("Body"); b != nil {
			sites = append(sites, func() {
				var ch []*Dir
				for _, c := range d.Children {
					if c != b {
						ch = append(ch, c)
					}
				}
				d.Children = ch
				if len(ch) == 0 {
					d.Explicit = false
				}
			})
		}
	})
	if len(sites) == 0 {
		return doc, false
	}
	sites[rapid.IntRange(0, len(sites)-1).Draw(t, "bodyFaultSite")]()
	return doc, doc.FixContexts()
}

// InjectSchemaConfusion replaces the schema of one schema-bearing directive by
// a schema of another shape (a reference to any declared type whatever its
// notation, an array, a scalar, an "or", a regex, any / empty): documents that
// are usually invalid, for the totality and path-parameter checks.
func InjectSchemaConfusion(t *rapid.T, doc0 *Doc) (*Doc, int, bool) {
	doc := doc0.Copy()
	var hosts []*Dir
	var typeNames []string
	doc.Walk(func(d, p *Dir) {
		if d.Schema != nil && d.Kw != "TYPE" {
			hosts = append(hosts, d)
		}
		if d.Kw == "TYPE" && len(d.Params) > 0 {
			typeNames = append(typeNames, d.Params[0])
		}
	})
	if len(hosts) == 0 {
		return doc, 0, false
	}
	d := hosts[rapid.IntRange(0, len(hosts)-1).Draw(t, "confHost")]
	tn := "@undefinedType"
	if len(typeNames) > 0 && rapid.IntRange(0, 5).Draw(t, "confUndefined") > 0 {
		tn = rapid.SampledFrom(typeNames).Draw(t, "confType")
	}
	keepParam := d.Schema.AsParam
	switch rapid.IntRange(0, 8).Draw(t, "confShape") {
	case 0:
		d.Schema = &Schema{Notation: "jsight", Root: "ref", Ref: tn}
	case 1:
		d.Schema = &Schema{Notation: "jsight", Root: "arrref", Ref: tn}
	case 2:
		d.Schema = &Schema{Notation: "jsight", Root: "int", Int: 5}
	case 3:
		d.Schema = &Schema{Notation: "jsight", Root: "str", Str: "text"}
	case 4:
		d.Schema = &Schema{Notation: "jsight", Root: "or", Ref: tn, Ref2: tn}
	case 5:
		d.Schema = &Schema{Notation: "regex", Regex: "ab+c"}
	case 6:
		d.Schema = &Schema{Notation: "any", AsParam: true}
	case 7:
		d.Schema = &Schema{Notation: "jsight", Raw: []string{"{", "  \"a\": {\"b\": [1, 2]},", "  \"c\": null // {nullable: true}", "}"}}
	default:
		d.Schema = &Schema{Notation: "jsight", Raw: []string{"[]"}}
	}
	if keepParam && (d.Schema.Root == "ref" || d.Schema.Root == "arrref") {
		d.Schema.AsParam = true
	}
	return doc, d.ID, true
}
