package vlib

import (
	"fmt"
	"strings"

	"github.com/jsightapi/jsight-api-go-library/directive"
	"github.com/jsightapi/jsight-api-go-library/scanner"
	"github.com/jsightapi/jsight-schema-go-library/fs"
	"github.com/jsightapi/jsight-schema-go-library/notations/jschema"
	"github.com/jsightapi/jsight-schema-go-library/rules/enum"
)

type Lx struct {
	T    scanner.LexemeType
	B, E int
}

// gapOK is the independent recogniser of trivia between lexemes: blanks, line
// ends, '#' line comments, '###' block comments, and the annotation
// delimiters directly around an Annotation lexeme. On a '//' annotation line a
// '#' starts a line comment even when it is '###'.
func gapOK(g []byte, nextIsAnn, prevIsAnn bool) (bool, string) {
	i := 0
	n := len(g)
	if prevIsAnn && n > 0 && g[0] == '#' {
		for i < n && g[i] != '\n' && g[i] != '\r' {
			i++
		}
	}
	for i < n {
		c := g[i]
		switch {
		case c == ' ' || c == '\t' || c == '\n' || c == '\r':
			i++
		case c == '#':
			if strings.HasPrefix(string(g[i:]), "###") {
				j := strings.Index(string(g[i+3:]), "###")
				if j < 0 {
					return false, "unterminated block comment"
				}
				i = i + 3 + j + 3
			} else {
				for i < n && g[i] != '\n' && g[i] != '\r' {
					i++
				}
			}
		case c == '/' && i+1 < n && (g[i+1] == '/' || g[i+1] == '*') && i+2 == n && nextIsAnn:
			i += 2
		case c == '*' && i+1 < n && g[i+1] == '/' && i == 0 && prevIsAnn:
			i += 2
		default:
			return false, fmt.Sprintf("byte %q at gap offset %d is neither whitespace, a line end, comment text nor an annotation delimiter", c, i)
		}
	}
	return true, ""
}

// TriviaOnly says whether the text is nothing but blanks, line ends and
// comments (the gap recogniser applied to a whole text).
func TriviaOnly(s string) bool {
	ok, _ := gapOK([]byte(s), false, false)
	return ok
}

// ScanAll runs the scanner alone to the end of the input.
func ScanAll(src string) (ls []Lx, scanErr string, panicked string) {
	defer func() {
		if r := recover(); r != nil {
			panicked = fmt.Sprint(r)
		}
	}()
	s := scanner.NewJApiScanner(fs.NewFile("x.jst", []byte(src)))
	for {
		l, je := s.Next()
		if je != nil {
			return ls, je.Error(), ""
		}
		if l == nil {
			return ls, "", ""
		}
		ls = append(ls, Lx{l.Type(), int(l.Begin()), int(l.End())})
	}
}

// CheckLex is the C14 oracle. inDomain is false when the scanner rejects the
// input (the property speaks about inputs read without error).
func CheckLex(src string) (nLex int, inDomain bool, hasBody bool, f *Failure) {
	c := []byte(src)
	ls, scanErr, pan := ScanAll(src)
	if pan != "" {
		// a panic inside the scanner is C01's business; here the input is simply
		// not "read without error"
		return len(ls), false, false, nil
	}
	if scanErr != "" {
		return len(ls), false, false, nil
	}
	prevEnd := -1
	prevKeyword := ""
	for i, l := range ls {
		if l.E < l.B-1 || l.E >= len(c) || l.B < 0 {
			return len(ls), true, hasBody, Failf("lexeme-bounds", "lexeme %d %v [%d,%d] does not lie inside the input of %d bytes (or ends before it begins)", i, l.T, l.B, l.E, len(c))
		}
		empty := l.E == l.B-1
		if l.B <= prevEnd && !(empty && l.B == prevEnd+1) {
			return len(ls), true, hasBody, Failf("lexeme-order", "lexeme %d %v [%d,%d] overlaps or precedes the previous one ending at %d", i, l.T, l.B, l.E, prevEnd)
		}
		text := c[l.B : l.E+1]
		switch l.T {
		case scanner.Keyword:
			if _, err := directive.NewDirectiveType(string(text)); err != nil {
				return len(ls), true, hasBody, Failf("unknown-keyword", "keyword lexeme %q is not in the directive table", text)
			}
			prevKeyword = string(text)
		case scanner.Schema:
			hasBody = true
			n, err := jschema.FromFile(fs.NewFile("", c[l.B:])).Len()
			if err != nil || int(n) != l.E-l.B+1 {
				return len(ls), true, hasBody, Failf("schema-length", "schema lexeme [%d,%d] has %d bytes but the schema library delimits %d (err %v)", l.B, l.E, l.E-l.B+1, n, err)
			}
			if n == 0 {
				return len(ls), true, hasBody, Failf("schema-empty", "schema lexeme at %d is an empty value", l.B)
			}
		case scanner.Enum:
			hasBody = true
			n, err := enum.FromFile(fs.NewFile("", c[l.B:])).Len()
			if err != nil || int(n) != l.E-l.B+1 {
				return len(ls), true, hasBody, Failf("enum-length", "enum lexeme [%d,%d] has %d bytes but the schema library delimits %d (err %v)", l.B, l.E, l.E-l.B+1, n, err)
			}
		case scanner.Text:
			hasBody = true
			if prevKeyword != "Description" {
				// a regex body: /.../ with the closing slash not escaped
				if len(text) < 2 || text[0] != '/' || text[len(text)-1] != '/' {
					return len(ls), true, hasBody, Failf("regex-delimiters", "regex body lexeme %q is not delimited by slashes", text)
				}
				esc := false
				for k := 1; k < len(text)-1; k++ {
					if esc {
						esc = false
						continue
					}
					if text[k] == '\\' {
						esc = true
					} else if text[k] == '/' {
						return len(ls), true, hasBody, Failf("regex-delimiters", "regex body lexeme %q holds an unescaped slash before its end", text)
					}
				}
				if esc {
					return len(ls), true, hasBody, Failf("regex-delimiters", "the closing slash of regex body lexeme %q is escaped", text)
				}
			}
		case scanner.Annotation:
			hasBody = true
		case scanner.ContextExplicitOpening:
			if string(text) != "(" {
				return len(ls), true, hasBody, Failf("paren-lexeme", "context-opening lexeme is %q", text)
			}
		case scanner.ContextExplicitClosing:
			if string(text) != ")" {
				return len(ls), true, hasBody, Failf("paren-lexeme", "context-closing lexeme is %q", text)
			}
		}
		if l.B > prevEnd+1 {
			prevAnn := i > 0 && ls[i-1].T == scanner.Annotation
			if ok, why := gapOK(c[prevEnd+1:l.B], l.T == scanner.Annotation, prevAnn); !ok {
				return len(ls), true, hasBody, Failf("dropped-content", "bytes [%d:%d] %q belong to no lexeme: %s", prevEnd+1, l.B, trunc(string(c[prevEnd+1:l.B]), 80), why)
			}
		}
		if l.E > prevEnd {
			prevEnd = l.E
		}
	}
	if prevEnd+1 < len(c) {
		prevAnn := len(ls) > 0 && ls[len(ls)-1].T == scanner.Annotation
		if ok, why := gapOK(c[prevEnd+1:], false, prevAnn); !ok {
			return len(ls), true, hasBody, Failf("dropped-content", "trailing bytes [%d:] %q belong to no lexeme: %s", prevEnd+1, trunc(string(c[prevEnd+1:]), 80), why)
		}
	}
	return len(ls), true, hasBody, nil
}

func trunc(s string, n int) string {
	if len(s) > n {
		return s[:n] + "..."
	}
	return s
}
