package vlib

import (
	"fmt"
	"sort"
	"strings"
)

// ---------------------------------------------------------------------------
// Expectation values: plain values (*OMap ordered object, []any ordered list,
// string, bool) plus the markers below.

// Wild matches any present value.
type Wild struct{}

// Unordered is an object whose member order is a serialisation detail: the key
// set must be exactly the expected one, order is not compared.
type Unordered struct{ M *OMap }

// NameSet is a list of names compared as a set: every Must name present, every
// present name in Must or May.
type NameSet struct {
	Must []string
	May  []string
}

func U(kv ...any) Unordered {
	m := &OMap{Vals: map[string]any{}}
	for i := 0; i+1 < len(kv); i += 2 {
		k := kv[i].(string)
		m.Keys = append(m.Keys, k)
		m.Vals[k] = kv[i+1]
	}
	return Unordered{m}
}

func (u Unordered) Set(k string, v any) Unordered {
	if _, ok := u.M.Vals[k]; !ok {
		u.M.Keys = append(u.M.Keys, k)
	}
	u.M.Vals[k] = v
	return u
}

func newOMap() *OMap { return &OMap{Vals: map[string]any{}} }

func (m *OMap) Put(k string, v any) {
	if _, ok := m.Vals[k]; !ok {
		m.Keys = append(m.Keys, k)
	}
	m.Vals[k] = v
}

// CompareExpected compares an actual ordered JSON value with an expectation;
// it returns the differences (closed key sets: nothing but what is expected).
func CompareExpected(path string, exp, act any, errs *[]string) {
	if len(*errs) > 8 {
		return
	}
	switch e := exp.(type) {
	case Wild:
		if act == nil {
			*errs = append(*errs, path+": missing")
		}
	case string:
		if a, ok := act.(string); !ok || a != e {
			*errs = append(*errs, fmt.Sprintf("%s: want %q got %s", path, e, show(act)))
		}
	case bool:
		if a, ok := act.(bool); !ok || a != e {
			*errs = append(*errs, fmt.Sprintf("%s: want %v got %s", path, e, show(act)))
		}
	case NameSet:
		a, ok := act.([]any)
		if act == nil {
			a, ok = []any{}, true
		}
		if !ok {
			*errs = append(*errs, fmt.Sprintf("%s: want a list got %s", path, show(act)))
			return
		}
		got := map[string]bool{}
		for _, x := range a {
			s, _ := x.(string)
			if got[s] {
				*errs = append(*errs, fmt.Sprintf("%s: %q listed twice", path, s))
			}
			got[s] = true
		}
		allowed := map[string]bool{}
		for _, m := range e.Must {
			allowed[m] = true
			if !got[m] {
				*errs = append(*errs, fmt.Sprintf("%s: lacks %q (got %s)", path, m, show(act)))
			}
		}
		for _, m := range e.May {
			allowed[m] = true
		}
		for g := range got {
			if !allowed[g] {
				*errs = append(*errs, fmt.Sprintf("%s: unexpected %q (expected %v)", path, g, e.Must))
			}
		}
	case Unordered:
		a, ok := act.(*OMap)
		if !ok {
			*errs = append(*errs, fmt.Sprintf("%s: want an object got %s", path, show(act)))
			return
		}
		for _, k := range e.M.Keys {
			if _, ok := a.Vals[k]; !ok {
				if ns, isSet := e.M.Vals[k].(NameSet); isSet && len(ns.Must) == 0 {
					continue
				}
				*errs = append(*errs, fmt.Sprintf("%s: lacks key %q", path, k))
				continue
			}
			CompareExpected(path+"."+k, e.M.Vals[k], a.Vals[k], errs)
		}
		for _, k := range a.Keys {
			if _, ok := e.M.Vals[k]; !ok {
				*errs = append(*errs, fmt.Sprintf("%s: unexpected key %q = %s", path, k, show(a.Vals[k])))
			}
		}
	case *OMap:
		a, ok := act.(*OMap)
		if !ok {
			if act == nil && len(e.Keys) == 0 {
				return
			}
			*errs = append(*errs, fmt.Sprintf("%s: want an object got %s", path, show(act)))
			return
		}
		if strings.Join(e.Keys, "\x00") != strings.Join(a.Keys, "\x00") {
			*errs = append(*errs, fmt.Sprintf("%s: entries want %q got %q", path, e.Keys, a.Keys))
			return
		}
		for _, k := range e.Keys {
			CompareExpected(path+"."+k, e.Vals[k], a.Vals[k], errs)
		}
	case []any:
		a, ok := act.([]any)
		if !ok || len(a) != len(e) {
			*errs = append(*errs, fmt.Sprintf("%s: want a list of %d got %s", path, len(e), show(act)))
			return
		}
		for i := range e {
			CompareExpected(fmt.Sprintf("%s[%d]", path, i), e[i], a[i], errs)
		}
	case nil:
		if act != nil {
			*errs = append(*errs, fmt.Sprintf("%s: unexpected value %s", path, show(act)))
		}
	default:
		*errs = append(*errs, fmt.Sprintf("%s: unknown expectation %T", path, exp))
	}
}

func show(v any) string {
	if v == nil {
		return "<absent>"
	}
	s := Canon(v)
	if len(s) > 200 {
		s = s[:200] + "..."
	}
	return s
}

// ---------------------------------------------------------------------------
// Macro inlining (reference for C07 and the first step of the reference catalog)

// InlineResult says why a document with macros must be rejected ("" = fine).
type InlineProblem string

// Inline replaces every PASTE by the (recursively inlined) body of the macro
// it names and deletes the MACRO definitions. It detects undefined names,
// duplicate macro names and cycles.
func Inline(doc *Doc) (*Doc, InlineProblem) {
	macros := map[string]*Dir{}
	var find func(list []*Dir) InlineProblem
	find = func(list []*Dir) InlineProblem {
		for _, d := range list {
			if d.Kw == "MACRO" {
				if len(d.Params) == 0 {
					return "macro without a name"
				}
				if _, dup := macros[d.Params[0]]; dup {
					return InlineProblem("duplicate macro " + d.Params[0])
				}
				macros[d.Params[0]] = d
			}
		}
		return ""
	}
	if p := find(doc.Top); p != "" {
		return nil, p
	}
	// cycles anywhere in the paste graph (reachable from a top-level PASTE or not)
	state := map[string]int{}
	var cyc func(name string) bool
	var pastesIn func(d *Dir, f func(string) bool) bool
	pastesIn = func(d *Dir, f func(string) bool) bool {
		if d.Kw == "PASTE" && len(d.Params) > 0 {
			if f(d.Params[0]) {
				return true
			}
		}
		for _, c := range d.Children {
			if pastesIn(c, f) {
				return true
			}
		}
		return false
	}
	cyc = func(name string) bool {
		switch state[name] {
		case 1:
			return true
		case 2:
			return false
		}
		m, ok := macros[name]
		if !ok {
			return false
		}
		state[name] = 1
		for _, c := range m.Children {
			if pastesIn(c, cyc) {
				return true
			}
		}
		state[name] = 2
		return false
	}
	names := make([]string, 0, len(macros))
	for n := range macros {
		names = append(names, n)
	}
	sort.Strings(names)
	for _, n := range names {
		if cyc(n) {
			return nil, "macro cycle"
		}
	}
	var problem InlineProblem
	var exp func(ds []*Dir, top bool) []*Dir
	exp = func(ds []*Dir, top bool) []*Dir {
		var out []*Dir
		for _, d := range ds {
			if d.Kw == "MACRO" && top {
				continue
			}
			if d.Kw == "PASTE" {
				if len(d.Params) == 0 {
					problem = "paste without a name"
					continue
				}
				m, ok := macros[d.Params[0]]
				if !ok {
					problem = InlineProblem("undefined macro " + d.Params[0])
					continue
				}
				for _, c := range exp(m.Children, false) {
					out = append(out, c.Copy())
				}
				continue
			}
			c := *d
			c.Children = exp(d.Children, false)
			if len(c.Children) == 0 {
				c.Explicit = false
			}
			out = append(out, &c)
		}
		return out
	}
	nd := &Doc{Top: exp(doc.Top, true)}
	if problem != "" {
		return nil, problem
	}
	nd.Renumber()
	return nd, ""
}

// ---------------------------------------------------------------------------
// The reference catalog

type refCat struct {
	types map[string]*Dir
}

// fullProps: the property nodes of an object type with its bases expanded, in
// the order the property prescribes; markBase != "" marks every node as
// inherited from that base.
func (rc *refCat) objChildren(o *Obj) []any {
	var out []any
	for _, b := range o.AllOf {
		bt := rc.types[b]
		if bt == nil || bt.Schema == nil || bt.Schema.Obj == nil {
			continue
		}
		for _, n := range rc.objChildren(bt.Schema.Obj) {
			u := n.(Unordered)
			cp := U()
			for _, k := range u.M.Keys {
				cp.Set(k, u.M.Vals[k])
			}
			cp.Set("inheritedFrom", b)
			out = append(out, cp)
		}
	}
	for _, p := range o.Props {
		n := rc.propNode(p.Key, p.V)
		if p.KeyRef {
			n.Set("isKeyUserTypeRef", true)
		}
		out = append(out, n)
	}
	return out
}

func ruleRef(key, name string) any {
	return U("key", key, "tokenType", "reference", "scalarValue", name)
}

func (rc *refCat) propNode(key string, v Val) Unordered {
	n := U()
	if key != "" {
		n.Set("key", key)
	}
	var rules []any
	switch v.Kind {
	case "int":
		n.Set("tokenType", "number").Set("type", "integer").Set("scalarValue", fmt.Sprint(v.Int))
	case "str":
		n.Set("tokenType", "string").Set("type", "string").Set("scalarValue", v.Str)
	case "bool":
		n.Set("tokenType", "boolean").Set("type", "boolean").Set("scalarValue", "true")
	case "ref":
		n.Set("tokenType", "reference").Set("type", v.Ref).Set("scalarValue", v.Ref)
	case "or":
		n.Set("tokenType", "reference").Set("type", "mixed").Set("scalarValue", v.Ref+" | "+v.Ref2)
	case "arrref":
		item := U("tokenType", "reference", "type", v.Ref, "scalarValue", v.Ref, "optional", true)
		n.Set("tokenType", "array").Set("type", "array").Set("children", []any{item})
	case "enumstr":
		n.Set("tokenType", "string").Set("type", "enum").Set("scalarValue", v.Str)
		rules = append(rules, ruleRef("enum", v.Enum))
	case "typed":
		n.Set("tokenType", "number").Set("type", v.Ref).Set("scalarValue", fmt.Sprint(v.Int))
		rules = append(rules, ruleRef("type", v.Ref))
	case "emptyarr":
		n.Set("tokenType", "array").Set("type", "array").Set("children", []any{})
	case "emptyobj":
		n.Set("tokenType", "object").Set("type", "object").Set("children", []any{})
	case "orrule":
		n.Set("tokenType", "number").Set("type", "mixed").Set("scalarValue", fmt.Sprint(v.Int))
		rules = append(rules, U("key", "or", "tokenType", "array", "children", []any{
			U("tokenType", "string", "scalarValue", v.Str), U("tokenType", "reference", "scalarValue", v.Ref)}))
	case "obj":
		n.Set("tokenType", "object").Set("type", "object").Set("children", rc.objChildren(v.Obj))
		rules = append(rules, allOfRules(v.Obj)...)
	case "arrobj":
		item := U("tokenType", "object", "type", "object", "children", rc.objChildren(v.Obj), "optional", true)
		if r := allOfRules(v.Obj); r != nil {
			item.Set("rules", r)
		}
		for w := 0; w < v.Wrap; w++ {
			item = U("tokenType", "array", "type", "array", "children", []any{item}, "optional", true)
		}
		n.Set("tokenType", "array").Set("type", "array").Set("children", []any{item})
	}
	if v.Optional {
		rules = append(rules, U("key", "optional", "tokenType", "boolean", "scalarValue", "true"))
	}
	if len(rules) > 0 {
		n.Set("rules", rules)
	}
	n.Set("optional", v.Optional)
	return n
}

func allOfRules(o *Obj) []any {
	switch len(o.AllOf) {
	case 0:
		return nil
	case 1:
		return []any{ruleRef("allOf", o.AllOf[0])}
	}
	var items []any
	for _, b := range o.AllOf {
		items = append(items, U("tokenType", "reference", "scalarValue", b))
	}
	return []any{U("key", "allOf", "tokenType", "array", "children", items)}
}

// usedOf collects the directly referenced type names of an object schema.
func usedOfObj(o *Obj, add func(string)) {
	for _, b := range o.AllOf {
		add(b)
	}
	for _, p := range o.Props {
		if p.KeyRef {
			add(p.Key)
		}
		switch p.V.Kind {
		case "ref", "arrref", "typed", "orrule":
			add(p.V.Ref)
		case "or":
			add(p.V.Ref)
			add(p.V.Ref2)
		case "obj", "arrobj":
			usedOfObj(p.V.Obj, add)
		}
	}
}

// transitiveBases collects the names a schema may additionally list in
// usedUserTypes (known finding F16): every allOf base named anywhere inside
// the object tree of one of its bases, transitively.
func (rc *refCat) transitiveBases(o *Obj, out map[string]bool) {
	var allBasesInside func(o *Obj, seen map[string]bool)
	allBasesInside = func(o *Obj, seen map[string]bool) {
		for _, b := range o.AllOf {
			out[b] = true
			if !seen[b] {
				seen[b] = true
				if bt := rc.types[b]; bt != nil && bt.Schema != nil && bt.Schema.Obj != nil {
					allBasesInside(bt.Schema.Obj, seen)
				}
			}
		}
		for _, p := range o.Props {
			if p.V.Obj != nil {
				allBasesInside(p.V.Obj, seen)
			}
		}
	}
	seen := map[string]bool{}
	var walk func(o *Obj)
	walk = func(o *Obj) {
		for _, b := range o.AllOf {
			if bt := rc.types[b]; bt != nil && bt.Schema != nil && bt.Schema.Obj != nil {
				allBasesInside(bt.Schema.Obj, seen)
			}
		}
		for _, p := range o.Props {
			if p.V.Obj != nil {
				walk(p.V.Obj)
			}
		}
	}
	walk(o)
}

// schema builds the expectation for a schema.
func (rc *refCat) schema(s *Schema) Unordered {
	switch s.Notation {
	case "any", "empty":
		return U("notation", s.Notation)
	case "regex":
		return U("content", s.Regex, "example", Wild{}, "notation", "regex")
	}
	e := U("notation", "jsight", "example", Wild{})
	var used []string
	seen := map[string]bool{}
	add := func(n string) {
		if !seen[n] {
			seen[n] = true
			used = append(used, n)
		}
	}
	var may []string
	switch s.Root {
	case "obj":
		c := U("tokenType", "object", "type", "object", "children", rc.objChildren(s.Obj), "optional", false)
		if r := allOfRules(s.Obj); r != nil {
			c.Set("rules", r)
		}
		e.Set("content", c)
		usedOfObj(s.Obj, add)
		tb := map[string]bool{}
		rc.transitiveBases(s.Obj, tb)
		for b := range tb {
			may = append(may, b)
		}
	case "ref":
		e.Set("content", U("tokenType", "reference", "type", s.Ref, "scalarValue", s.Ref, "optional", false))
		add(s.Ref)
	case "arrref":
		item := U("tokenType", "reference", "type", s.Ref, "scalarValue", s.Ref, "optional", true)
		e.Set("content", U("tokenType", "array", "type", "array", "children", []any{item}, "optional", false))
		add(s.Ref)
	case "or":
		e.Set("content", U("tokenType", "reference", "type", "mixed", "scalarValue", s.Ref+" | "+s.Ref2, "optional", false))
		add(s.Ref)
		add(s.Ref2)
	case "int":
		e.Set("content", U("tokenType", "number", "type", "integer", "scalarValue", fmt.Sprint(s.Int), "optional", false))
	case "str":
		e.Set("content", U("tokenType", "string", "type", "string", "scalarValue", s.Str, "optional", false))
	case "bool":
		e.Set("content", U("tokenType", "boolean", "type", "boolean", "scalarValue", "true", "optional", false))
	}
	sort.Strings(may)
	e.Set("usedUserTypes", NameSet{Must: used, May: may})
	return e
}

func formatOf(s *Schema) string {
	switch s.Notation {
	case "regex":
		return "plainString"
	case "any", "empty":
		return "binary"
	}
	return "json"
}

// AutoTagOf is the reference automatic tag of a path with a plain first segment.
func AutoTagOf(path string) (name, title string) {
	seg := ""
	for _, s := range strings.Split(path, "/") {
		if s != "" && s != "." {
			seg = s
			break
		}
	}
	if seg == "" {
		return "@_", "/"
	}
	return "@" + seg, "/" + seg
}

// RefCatalog computes the expected catalog of a valid document.
func RefCatalog(doc0 *Doc) (Unordered, error) {
	doc, prob := Inline(doc0)
	if prob != "" {
		return Unordered{}, fmt.Errorf("document is not expandable: %s", prob)
	}
	rc := &refCat{types: map[string]*Dir{}}
	doc.Walk(func(d, _ *Dir) {
		if d.Kw == "TYPE" && len(d.Params) > 0 {
			rc.types[d.Params[0]] = d
		}
	})
	tags := newOMap()
	type grp struct{ http, rpc []any }
	groups := map[string]*grp{}
	declTag := func(name, title string, desc *string) {
		e := U("name", name, "title", title)
		if desc != nil {
			e.Set("description", *desc)
		}
		tags.Put(name, e)
		groups[name] = &grp{}
	}
	doc.Walk(func(d, _ *Dir) {
		if d.Kw == "TAG" {
			title := d.Params[0]
			if d.Ann != "" {
				title = d.Ann
			}
			var desc *string
			if dd := d.Child("Description"); dd != nil {
				s := Dedent(dd.Text)
				desc = &s
			}
			declTag(d.Params[0], title, desc)
		}
	})

	// binding table prefix -> property node, from every Path directive
	bindings := map[string]Val{}
	var collect func(d *Dir, hostPath string)
	collect = func(d *Dir, hostPath string) {
		hp := hostPath
		if (d.Kw == "URL" || IsVerb(d.Kw)) && len(d.Params) > 0 {
			hp = d.Params[0]
		}
		if d.Kw == "Path" && d.Schema != nil && d.Schema.Obj != nil {
			names, prefixes := PathParamsOf(hp)
			for _, p := range d.Schema.Obj.Props {
				for i, n := range names {
					if n == p.Key {
						bindings[prefixes[i]] = p.V
					}
				}
			}
		}
		for _, c := range d.Children {
			collect(c, hp)
		}
	}
	for _, d := range doc.Top {
		collect(d, "")
	}

	inter := newOMap()
	tagsOf := func(m, url *Dir, path, proto, id string) []any {
		var names []string
		if td := m.Child("Tags"); td != nil {
			names = td.Params
		} else if url != nil && url.Child("Tags") != nil {
			names = url.Child("Tags").Params
		} else {
			n, title := AutoTagOf(path)
			if _, ok := tags.Vals[n]; !ok {
				declTag(n, title, nil)
			}
			names = []string{n}
		}
		var out []any
		for _, n := range names {
			out = append(out, n)
			if g := groups[n]; g != nil {
				if proto == "http" {
					g.http = append(g.http, id)
				} else {
					g.rpc = append(g.rpc, id)
				}
			}
		}
		return out
	}
	bodyOf := func(host *Dir) (Unordered, bool) {
		bd := host
		if b := host.Child("Body"); b != nil {
			bd = b
		}
		if bd.Schema == nil {
			return Unordered{}, false
		}
		return U("format", formatOf(bd.Schema), "schema", rc.schema(bd.Schema)), true
	}
	addHTTP := func(m, url *Dir) {
		path := ""
		if len(m.Params) > 0 {
			path = m.Params[0]
		} else if url != nil {
			path = url.Params[0]
		}
		id := "http " + m.Kw + " " + path
		e := U("id", id, "protocol", "http", "httpMethod", m.Kw, "path", path)
		names, prefixes := PathParamsOf(path)
		var kids []any
		var used []string
		for i, n := range names {
			if v, ok := bindings[prefixes[i]]; ok {
				kids = append(kids, rc.propNode(n, v))
				if v.Kind == "ref" || v.Kind == "typed" || v.Kind == "orrule" {
					used = append(used, v.Ref)
				}
			}
		}
		if len(kids) > 0 {
			sc := U("content", U("tokenType", "object", "type", "object", "children", kids, "optional", false), "notation", "jsight")
			sc.Set("usedUserTypes", NameSet{Must: used})
			e.Set("pathVariables", U("schema", sc))
		}
		e.Set("tags", tagsOf(m, url, path, "http", id))
		if m.Ann != "" {
			e.Set("annotation", m.Ann)
		}
		if dd := m.Child("Description"); dd != nil {
			e.Set("description", Dedent(dd.Text))
		}
		if q := m.Child("Query"); q != nil {
			qe := U("format", "htmlFormEncoded", "schema", rc.schema(q.Schema))
			for _, p := range q.Params {
				if p == "htmlFormEncoded" || p == "noFormat" {
					qe.Set("format", p)
				} else {
					qe.Set("example", p)
				}
			}
			e.Set("query", qe)
		}
		if rq := m.Child("Request"); rq != nil {
			re := U()
			if h := rq.Child("Headers"); h != nil {
				re.Set("headers", U("schema", rc.schema(h.Schema)))
			}
			if b, ok := bodyOf(rq); ok {
				re.Set("body", b)
			}
			e.Set("request", re)
		}
		var resps []any
		for _, c := range m.Children {
			if !IsCode(c.Kw) {
				continue
			}
			re := U("code", c.Kw)
			if c.Ann != "" {
				re.Set("annotation", c.Ann)
			}
			if h := c.Child("Headers"); h != nil {
				re.Set("headers", U("schema", rc.schema(h.Schema)))
			}
			if b, ok := bodyOf(c); ok {
				re.Set("body", b)
			}
			resps = append(resps, re)
		}
		if len(resps) > 0 {
			e.Set("responses", resps)
		}
		inter.Put(id, e)
	}
	var info any
	servers, utypes, uenums := newOMap(), newOMap(), newOMap()
	for _, b := range doc.Top {
		switch {
		case b.Kw == "INFO":
			ie := U()
			if t := b.Child("Title"); t != nil {
				ie.Set("title", t.Params[0])
			}
			if v := b.Child("Version"); v != nil {
				ie.Set("version", v.Params[0])
			}
			if d := b.Child("Description"); d != nil {
				ie.Set("description", Dedent(d.Text))
			}
			info = ie
		case b.Kw == "SERVER":
			se := U()
			if b.Ann != "" {
				se.Set("annotation", b.Ann)
			}
			if bu := b.Child("BaseUrl"); bu != nil {
				se.Set("baseUrl", bu.Params[0])
			}
			servers.Put(b.Params[0], se)
		case b.Kw == "TYPE":
			te := U()
			if b.Ann != "" {
				te.Set("annotation", b.Ann)
			}
			te.Set("schema", rc.schema(b.Schema))
			utypes.Put(b.Params[0], te)
		case b.Kw == "ENUM":
			var kids []any
			for _, v := range b.Enum {
				if v.IsInt {
					kids = append(kids, U("tokenType", "number", "scalarValue", fmt.Sprint(v.Int)))
				} else {
					kids = append(kids, U("tokenType", "string", "scalarValue", v.Str))
				}
			}
			uenums.Put(b.Params[0], U("annotation", b.Ann, "description", "", "value", U("tokenType", "array", "children", kids)))
		case b.Kw == "URL":
			if b.Child("Protocol") != nil {
				for _, m := range b.Children {
					if m.Kw != "Method" {
						continue
					}
					path := b.Params[0]
					id := "json-rpc-2.0 " + m.Params[0] + " " + path
					e := U("id", id, "protocol", "json-rpc-2.0", "path", path, "method", m.Params[0])
					e.Set("tags", tagsOf(m, b, path, "json-rpc-2.0", id))
					if m.Ann != "" {
						e.Set("annotation", m.Ann)
					}
					if dd := m.Child("Description"); dd != nil {
						e.Set("description", Dedent(dd.Text))
					}
					if p := m.Child("Params"); p != nil {
						e.Set("params", U("schema", rc.schema(p.Schema)))
					}
					if p := m.Child("Result"); p != nil {
						e.Set("result", U("schema", rc.schema(p.Schema)))
					}
					inter.Put(id, e)
				}
			} else {
				for _, m := range b.Children {
					if IsVerb(m.Kw) {
						addHTTP(m, b)
					}
				}
			}
		case IsVerb(b.Kw):
			addHTTP(b, nil)
		}
	}
	for _, tn := range tags.Keys {
		te := tags.Vals[tn].(Unordered)
		var gs []any
		g := groups[tn]
		if len(g.http) > 0 {
			gs = append(gs, U("protocol", "http", "interactions", g.http))
		}
		if len(g.rpc) > 0 {
			gs = append(gs, U("protocol", "json-rpc-2.0", "interactions", g.rpc))
		}
		if gs == nil {
			gs = []any{}
		}
		te.Set("interactionGroups", gs)
	}
	top := U("tags", tags)
	if info != nil {
		top.Set("info", info)
	}
	if len(servers.Keys) > 0 {
		top.Set("servers", servers)
	}
	if len(utypes.Keys) > 0 {
		top.Set("userTypes", utypes)
	}
	if len(uenums.Keys) > 0 {
		top.Set("userEnums", uenums)
	}
	top.Set("interactions", inter)
	top.Set("jsight", "0.3")
	top.Set("jdocExchangeVersion", Wild{})
	return top, nil
}

// CheckCatalog compares the JSON of an accepted document with the reference.
func CheckCatalog(doc *Doc, js string) []string {
	act, err := DecodeOrdered([]byte(js))
	if err != nil {
		return []string{"catalog does not decode: " + err.Error()}
	}
	exp, err := RefCatalog(doc)
	if err != nil {
		return []string{err.Error()}
	}
	var errs []string
	CompareExpected("$", exp, act, &errs)
	return errs
}
