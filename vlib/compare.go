package vlib

import "strings"

// RegexTypeReferenced: the document declares a regex user type that is
// referenced from some schema. Then 'example' strings are unstable: the
// schema library draws a new example for the regex type at every AddType, so
// the text depends on how many schemas were processed before (declaration
// order, unrelated declarations) and - when two or more user types reference
// the regex type - on the map order in which the library merges nested type
// tables (known findings F35 / F36).
func RegexTypeReferenced(doc *Doc) bool {
	regexTypes := map[string]bool{}
	doc.Walk(func(d, _ *Dir) {
		if d.Kw == "TYPE" && d.Schema != nil && d.Schema.Notation == "regex" && len(d.Params) > 0 {
			regexTypes[d.Params[0]] = true
		}
	})
	if len(regexTypes) == 0 {
		return false
	}
	found := false
	var inObj func(o *Obj)
	inObj = func(o *Obj) {
		for _, p := range o.Props {
			if regexTypes[p.V.Ref] || regexTypes[p.V.Ref2] {
				found = true
			}
			if p.V.Obj != nil {
				inObj(p.V.Obj)
			}
		}
	}
	doc.Walk(func(d, _ *Dir) {
		if s := d.Schema; s != nil {
			if regexTypes[s.Ref] || regexTypes[s.Ref2] {
				found = true
			}
			if s.Obj != nil {
				inObj(s.Obj)
			}
		}
	})
	return found
}

// MaskExamples replaces every "example" member of a catalog by a placeholder
// and returns the canonical text.
func MaskExamples(js string) string {
	v, err := DecodeOrdered([]byte(js))
	if err != nil {
		return js
	}
	var rec func(v any)
	rec = func(v any) {
		switch x := v.(type) {
		case *OMap:
			for _, k := range x.Keys {
				if k == "example" {
					if _, ok := x.Vals[k].(string); ok {
						x.Vals[k] = "<masked>"
						continue
					}
				}
				rec(x.Vals[k])
			}
		case []any:
			for _, e := range x {
				rec(e)
			}
		}
	}
	rec(v)
	return Canon(v)
}

// KeyRegexExample is the root-cause key of the regex-example instability.
const KeyRegexExample = "regex-example-unstable"

// SameCatalog compares two catalogs of documents that say the same. It
// returns "" when they are byte-identical, KeyRegexExample when they differ
// only in example strings while a regex user type is referenced, and "differs"
// otherwise.
func SameCatalog(regexReferenced bool, a, b string) string {
	if a == b {
		return ""
	}
	if regexReferenced && MaskExamples(a) == MaskExamples(b) {
		return KeyRegexExample
	}
	return "differs"
}

// FirstDiffMasked is used for messages.
func StripCR(s string) string { return strings.ReplaceAll(s, "\r", "\\r\n") }
