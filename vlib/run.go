package vlib

import (
	"fmt"
	"os"
	"path/filepath"
	"runtime"
	"runtime/debug"
	"sort"
	"strings"
	"sync"
	"sync/atomic"
	"time"

	"github.com/jsightapi/jsight-api-go-library/core"
	"github.com/jsightapi/jsight-api-go-library/directive"
	"github.com/jsightapi/jsight-api-go-library/jerr"
	"github.com/jsightapi/jsight-api-go-library/kit"
	"github.com/jsightapi/jsight-schema-go-library/fs"
)

func init() {
	// A runaway recursion should die quickly and with bounded memory; 256 MB of
	// stack is far more than any input of the sizes generated here needs.
	debug.SetMaxStack(256 << 20)
}

// Project is what a run processes: files (path relative to the project
// directory -> content), the root file and the options.
type Project struct {
	Files  map[string]string `json:"files"`
	Root   string            `json:"root"`
	Banned []string          `json:"banned,omitempty"`
	// BanSplit > 0: the banned kinds are passed as several WithBannedDirectives
	// options (the list is cut after every BanSplit-th kind).
	BanSplit int `json:"ban_split,omitempty"`
	// Dirs are directories to create (for "INCLUDE of a directory" cases).
	Dirs []string `json:"dirs,omitempty"`
	// NoFixedSeed leaves the regex example generator unseeded.
	NoFixedSeed bool `json:"no_fixed_seed,omitempty"`
}

// Single makes a one-file project.
func Single(content string) Project {
	return Project{Files: map[string]string{"root.jst": content}, Root: "root.jst"}
}

// ErrInfo is everything observable about a JApiError.
type ErrInfo struct {
	Msg   string `json:"msg"`
	Full  string `json:"full"`
	Index int    `json:"index"`
	Line  int    `json:"line"`
	Quote string `json:"quote"`
	// File is the path, relative to the project directory, of the file the
	// error points into ("" when it is not one of the project's files).
	File    string `json:"file"`
	AbsFile string `json:"-"`
}

// Result of one run.
type Result struct {
	Accepted   bool     `json:"accepted"`
	Err        *ErrInfo `json:"err,omitempty"`
	JSON       string   `json:"json,omitempty"`
	JSONIndent string   `json:"-"`
	Title      string   `json:"title,omitempty"`
	// Panic is non-empty when any step panicked: "<value> @ <innermost library frame>".
	Panic      string `json:"panic,omitempty"`
	PanicStack string `json:"-"`
	PanicStage string `json:"panic_stage,omitempty"`
	// OpenErr is set when kit.NewJapi could not read the root file.
	OpenErr string `json:"open_err,omitempty"`
	// ToJSONErr is set when an accepted project fails to serialise.
	ToJSONErr string `json:"tojson_err,omitempty"`
	// Dir is the directory the project was materialised in ("" for virtual runs).
	Dir string `json:"-"`
}

var kindByName = func() map[string]directive.Enumeration {
	m := map[string]directive.Enumeration{}
	for i := directive.Jsight; i <= directive.Tags; i++ {
		m[i.String()] = i
	}
	return m
}()

// KindNames lists the names of all directive kinds of the library's table.
func KindNames() []string {
	var out []string
	for k := range kindByName {
		out = append(out, k)
	}
	sort.Strings(out)
	return out
}

func KindByName(n string) (directive.Enumeration, bool) {
	e, ok := kindByName[n]
	return e, ok
}

var scratchBase string
var scratchOnce sync.Once
var scratchSeq atomic.Int64

// ScratchBase is a per-process scratch directory (removed by CleanupScratch).
func ScratchBase() string {
	scratchOnce.Do(func() {
		base := os.Getenv("VERIF_SCRATCH")
		if base == "" {
			base = os.TempDir()
		}
		d, err := os.MkdirTemp(base, "vrun")
		if err != nil {
			panic(err)
		}
		scratchBase = d
	})
	return scratchBase
}

func CleanupScratch() {
	if scratchBase != "" {
		_ = os.RemoveAll(scratchBase)
	}
}

var scratchMu sync.Mutex

// library calls in flight (for the hang watchdog: a hang is a single call into
// the library that does not return, not a case that makes many calls)
var (
	callMu    sync.Mutex
	callSeq   int64
	callsOpen = map[int64]time.Time{}
)

func callBegin() int64 {
	callMu.Lock()
	callSeq++
	id := callSeq
	callsOpen[id] = time.Now()
	callMu.Unlock()
	return id
}

func callEnd(id int64) {
	callMu.Lock()
	delete(callsOpen, id)
	callMu.Unlock()
}

// OldestCall returns how long the oldest library call in flight has been running.
func OldestCall() time.Duration {
	callMu.Lock()
	defer callMu.Unlock()
	var d time.Duration
	for _, t := range callsOpen {
		if x := time.Since(t); x > d {
			d = x
		}
	}
	return d
}

// Materialise writes the project into a private directory and returns it. The
// directory's name is the lowest p<N> that does not exist at the moment, so the
// paths of removed projects are used again by later ones: anything the library
// remembers under a file's path (instead of reading the file) meets other
// content there.
func Materialise(p Project) string {
	scratchMu.Lock()
	var dir string
	for i := 1; ; i++ {
		dir = filepath.Join(ScratchBase(), fmt.Sprintf("p%d", i))
		if _, err := os.Stat(dir); err != nil {
			_ = os.MkdirAll(dir, 0o755)
			break
		}
	}
	scratchMu.Unlock()
	scratchSeq.Add(1)
	MaterialiseIn(p, dir)
	return dir
}

func MaterialiseIn(p Project, dir string) {
	_ = os.MkdirAll(dir, 0o755)
	for _, d := range p.Dirs {
		_ = os.MkdirAll(filepath.Join(dir, d), 0o755)
	}
	for name, content := range p.Files {
		fp := filepath.Join(dir, name)
		_ = os.MkdirAll(filepath.Dir(fp), 0o755)
		_ = os.WriteFile(fp, []byte(content), 0o644)
	}
}

func (p Project) options() []core.Option {
	var oo []core.Option
	if !p.NoFixedSeed {
		oo = append(oo, core.WithFixedSeedForRegex())
	}
	if len(p.Banned) > 0 {
		var dd []directive.Enumeration
		for _, b := range p.Banned {
			if e, ok := kindByName[b]; ok {
				dd = append(dd, e)
			}
		}
		if p.BanSplit > 0 {
			for i := 0; i < len(dd); i += p.BanSplit {
				oo = append(oo, core.WithBannedDirectives(dd[i:min(i+p.BanSplit, len(dd))]...))
			}
		} else {
			oo = append(oo, core.WithBannedDirectives(dd...))
		}
	}
	return oo
}

// needsDisk: INCLUDE goes through the file system, so any project that could
// include something is run from a real (private) directory.
func (p Project) needsDisk() bool {
	if len(p.Files) > 1 || len(p.Dirs) > 0 {
		return true
	}
	return strings.Contains(p.Files[p.Root], "INCLUDE")
}

// PanicSig reduces a recovered value and the stack to "<value> @ <function>"
// of the innermost frame that belongs to the library or the schema library.
func PanicSig(r any, stack string) string {
	lines := strings.Split(stack, "\n")
	seenPanic := false
	fn := "?"
	for _, l := range lines {
		if strings.HasPrefix(l, "panic(") {
			seenPanic = true
			continue
		}
		if seenPanic && strings.Contains(l, "jsightapi") && !strings.HasPrefix(l, "\t") {
			fn = l
			if k := strings.LastIndex(fn, "("); k > 0 {
				fn = fn[:k]
			}
			fn = fn[strings.LastIndex(fn, "/")+1:]
			break
		}
	}
	return fmt.Sprintf("%s @ %s", normNumbers(fmt.Sprint(r)), fn)
}

func normNumbers(s string) string {
	out := make([]rune, 0, len(s))
	for _, c := range s {
		if c >= '0' && c <= '9' {
			if len(out) > 0 && out[len(out)-1] == 'N' {
				continue
			}
			out = append(out, 'N')
		} else {
			out = append(out, c)
		}
	}
	if len(out) > 100 {
		out = out[:100]
	}
	return string(out)
}

// Run processes the project with a fresh JApi: create, validate, and when
// accepted serialise both ways and read the title. Panics are captured.
func Run(p Project) (res Result) {
	dir := ""
	if p.needsDisk() {
		dir = Materialise(p)
		defer os.RemoveAll(dir)
	}
	return RunIn(p, dir)
}

// RunWithOptions runs a single-file project with caller-built option values
// (for checks about option values that are reused between runs).
func RunWithOptions(src string, oo ...core.Option) (res Result) {
	return runWith(Single(src), "", oo)
}

// RunSameObjectTwice creates one JApi, and validates and serialises it twice.
func RunSameObjectTwice(src string) (first, second Result) {
	defer func() {
		if r := recover(); r != nil {
			first.Panic = PanicSig(r, string(debug.Stack()))
		}
	}()
	j := kit.NewJApiFromFile(fs.NewFile(filepath.Join("/nonexistent-verif", "root.jst"), []byte(src)), core.WithFixedSeedForRegex())
	pass := func() (res Result) {
		if je := j.ValidateJAPI(); je != nil {
			res.Err = errInfo(je, "")
			return res
		}
		res.Accepted = true
		b, err := j.ToJson()
		if err != nil {
			res.ToJSONErr = err.Error()
		}
		res.JSON = string(b)
		bi, _ := j.ToJsonIndent()
		res.JSONIndent = string(bi)
		res.Title = j.Title()
		return res
	}
	// the second pass goes through a copy of the JApi value taken before the
	// first validation (kit.JApi is passed around by value)
	copyBefore := j
	first = pass()
	j = copyBefore
	second = pass()
	return first, second
}

// FixedSeedOption is the option that makes regex-derived examples repeatable.
func FixedSeedOption() core.Option { return core.WithFixedSeedForRegex() }

// BanOption builds one WithBannedDirectives option value from kind names.
func BanOption(kinds ...string) core.Option {
	var dd []directive.Enumeration
	for _, b := range kinds {
		if e, ok := kindByName[b]; ok {
			dd = append(dd, e)
		}
	}
	return core.WithBannedDirectives(dd...)
}

// RunIn runs the project from dir ("" = virtual single file, no disk).
func RunIn(p Project, dir string) (res Result) {
	return runWith(p, dir, p.options())
}

func runWith(p Project, dir string, opts []core.Option) (res Result) {
	res, _, _ = runRaw(p, dir, opts, nil)
	return res
}

// SharedFile builds the file value a caller keeps and hands to the library
// more than once (the library does not copy the bytes).
func SharedFile(name string, content []byte) *fs.File {
	return fs.NewFile(filepath.Join("/nonexistent-verif", name), content)
}

// RunShared processes a caller-owned file value and returns, besides the
// result, the byte slices exactly as ToJson and ToJsonIndent handed them out
// (not copied), so a check can see whether they stay intact afterwards.
func RunShared(f *fs.File, opts ...core.Option) (res Result, raw, rawIndent []byte) {
	if len(opts) == 0 {
		opts = []core.Option{core.WithFixedSeedForRegex()}
	}
	return runRaw(Project{}, "", opts, f)
}

func runRaw(p Project, dir string, opts []core.Option, shared *fs.File) (res Result, raw, rawIndent []byte) {
	defer callEnd(callBegin())
	stage := "new"
	defer func() {
		if r := recover(); r != nil {
			st := string(debug.Stack())
			res.Panic = PanicSig(r, st)
			res.PanicStack = st
			res.PanicStage = stage
			res.Accepted = false
		}
	}()
	res.Dir = dir
	var j kit.JApi
	if dir != "" {
		var err error
		j, err = kit.NewJapi(filepath.Join(dir, p.Root), opts...)
		if err != nil {
			res.OpenErr = err.Error()
			return res, nil, nil
		}
	} else if shared != nil {
		j = kit.NewJApiFromFile(shared, opts...)
	} else {
		// the caller's byte slice must come back unchanged
		buf := []byte(p.Files[p.Root])
		defer func() {
			if string(buf) != p.Files[p.Root] && res.Panic == "" {
				res.Panic = "caller-bytes-modified: the library changed the source bytes it was given @ " + stage
				res.PanicStage = stage
				res.Accepted = false
			}
		}()
		j = kit.NewJApiFromFile(fs.NewFile(filepath.Join("/nonexistent-verif", p.Root), buf), opts...)
	}
	stage = "validate"
	if je := j.ValidateJAPI(); je != nil {
		stage = "error-accessors"
		res.Err = errInfo(je, dir)
		return res, nil, nil
	}
	res.Accepted = true
	stage = "tojson"
	b, err := j.ToJson()
	if err != nil {
		res.ToJSONErr = err.Error()
	}
	res.JSON = string(b)
	stage = "tojsonindent"
	bi, err := j.ToJsonIndent()
	if err != nil && res.ToJSONErr == "" {
		res.ToJSONErr = "indent: " + err.Error()
	}
	res.JSONIndent = string(bi)
	stage = "title"
	res.Title = j.Title()
	return res, b, bi
}

func errInfo(je *jerr.JApiError, dir string) *ErrInfo {
	e := &ErrInfo{
		Msg:     je.Msg,
		Full:    je.Error(),
		Index:   int(je.Index()),
		Line:    int(je.Line()),
		Quote:   je.Quote(),
		AbsFile: je.VerifFileName(),
	}
	base := dir
	if base == "" {
		base = "/nonexistent-verif"
	}
	if rel, err := filepath.Rel(base, e.AbsFile); err == nil && !strings.HasPrefix(rel, "..") {
		e.File = rel
	}
	return e
}

// RelTrace rewrites absolute paths under dir in an Error() text to relative ones.
func RelTrace(full, dir string) string {
	if dir == "" {
		dir = "/nonexistent-verif"
	}
	return strings.ReplaceAll(full, dir+string(filepath.Separator), "")
}

// Goroutines is used by leak checks.
func Goroutines() int { return runtime.NumGoroutine() }

var faultLogOnce sync.Once
var faultLogPath string

// EnableFaultLog points the schema-library overlay (see /verif/overlay) at a
// per-process log file.
func EnableFaultLog() {
	faultLogOnce.Do(func() {
		faultLogPath = filepath.Join(ScratchBase(), "faultlog")
		_ = os.Setenv("VERIF_FAULTLOG", faultLogPath)
	})
}

// LastFaultOrigin returns the innermost library frame of the last runtime
// fault the schema library converted into an error ("" when the overlay is
// not compiled in or nothing was logged), and truncates the log.
func LastFaultOrigin() string {
	if faultLogPath == "" {
		return ""
	}
	b, err := os.ReadFile(faultLogPath)
	if err != nil || len(b) == 0 {
		return ""
	}
	_ = os.Truncate(faultLogPath, 0)
	s := string(b)
	i := strings.LastIndex(s, "FAULT ")
	if i < 0 {
		return ""
	}
	entry := s[i:]
	sig := PanicSig("", entry)
	if j := strings.Index(sig, "@ "); j >= 0 {
		return sig[j+2:]
	}
	return ""
}
