package vlib

import (
	"fmt"
	"strings"

	"pgregory.net/rapid"
)

// GenOpts tunes the valid-document generator.
type GenOpts struct {
	Macros   bool // generate MACRO / PASTE
	MaxTypes int
	// NoDescriptionsMultiLine keeps free text single-line (newline rewriting).
	SingleLineText bool
	// RichNames draws titles / annotations from the stress pool.
	RichNames bool
	// Inheritance boosts allOf: more object types, more bases, more nested
	// objects that inherit (C10 / C12 / C20).
	Inheritance bool
	// PathHeavy: more resources, more path parameters, Path directives in macros (C13).
	PathHeavy bool
	// TagsHeavy: more TAG declarations and more Tags directives at both levels (C19).
	TagsHeavy bool
	// TopPasteAnywhere lets a top-level PASTE stand between later blocks (where
	// the block before it cannot adopt it), not only right after JSIGHT.
	TopPasteAnywhere bool
}

type genType struct {
	name   string
	kind   string // obj | int | regex | any | arr
	hasAll bool   // obj with allOf
}

type gen struct {
	t      *rapid.T
	o      GenOpts
	n      int // name counter
	id     int // Dir id counter
	types  []genType
	enums  []string
	enumV  map[string]string // enum -> one of its string values
	tags   []string
	macros []*genMacro
	// reservedF: path numbers reserved by declared tags named like the
	// automatic tag of a path that will be generated later.
	reservedF []int
	// usedKeyTypes: string types already used as a property key (each at most
	// once, so that no key can arrive twice through inheritance)
	usedKeyTypes map[string]bool
}

type genMacro struct {
	name    string
	target  string // responses | respbody | info | server | methodkids | urlkids | top
	dir     *Dir
	pasted  int
	maxUses int
	// pathKey: the macro's method declares this path parameter in a Path of its
	// own; a URL that pastes the macro ends its path with {pathKey}.
	pathKey string
}

func (g *gen) num() int { g.n++; return g.n }

func (g *gen) newDir(kw string, params ...string) *Dir {
	g.id++
	return &Dir{ID: g.id, Kw: kw, Params: params}
}

func (g *gen) intn(n int, label string) int {
	if n <= 1 {
		return 0
	}
	return rapid.IntRange(0, n-1).Draw(g.t, label)
}

// chance is true with probability num/den; the draw shrinks towards false.
func (g *gen) chance(num, den int, label string) bool { return g.intn(den, label) >= den-num }

func (g *gen) pickStr(ss []string, label string) string { return ss[g.intn(len(ss), label)] }

var annPool = []string{"note", "a longer note with words", "has \"quotes\" inside", "semi;colon, comma", "ünïcödé text", "slash / and star *", "back\\slash", "(parenthesised)", "ends with colon:", "1 2 3"}
var titlePool = []string{"My API", "Title", "Catalog of things", "A \"quoted\" title", "Tïtle", "T # with hash", "// not an annotation", "back\\slash title", "x"}
var wordPool = []string{"lorem", "ipsum", "dolor", "sit", "amet", "some text", "more words here", "a # hash inside", "x (round)", "x / y", "\"q\""}

func (g *gen) annotation() string {
	if !g.chance(1, 3, "hasAnn") {
		return ""
	}
	return fmt.Sprintf("%s %d", g.pickStr(annPool, "ann"), g.num())
}

func (g *gen) description() *Dir {
	d := g.newDir("Description")
	n := 1
	if !g.o.SingleLineText {
		n = 1 + g.intn(3, "descLines")
	}
	for i := 0; i < n; i++ {
		l := fmt.Sprintf("%s %d", g.pickStr(wordPool, "word"), g.num())
		if i > 0 {
			switch g.intn(4, "descShape") {
			case 0:
				l = "  " + l
			case 1:
				d.Text = append(d.Text, "")
			}
		}
		d.Text = append(d.Text, l)
	}
	return d
}

// refTarget picks a type with a larger index than 'self' (references only go
// "forward" in the fixed index order, so there is no recursion whatever the
// declaration order), of one of the wanted kinds.
func (g *gen) refTarget(self int, label string, kinds ...string) (genType, bool) {
	var cand []genType
	for i := self + 1; i < len(g.types); i++ {
		for _, k := range kinds {
			if g.types[i].kind == k {
				cand = append(cand, g.types[i])
			}
		}
	}
	if len(cand) == 0 {
		return genType{}, false
	}
	c := cand[g.intn(len(cand), label)]
	if c.kind == "regex" && !g.chance(1, 3, "allowRegexRef") {
		// references to regex user types make example strings unstable (known
		// finding F35); keep them, but rarer
		return genType{}, false
	}
	return c, true
}

func (g *gen) propVal(self int, depth int) Val {
	if g.o.Inheritance && depth < 2 && g.chance(1, 4, "nestedObjBoost") {
		return Val{Kind: "obj", Obj: g.obj(self, depth+1, g.chance(2, 3, "nestedAllOfBoost2"))}
	}
	switch g.intn(12, "valKind") {
	case 10:
		if g.chance(1, 2, "emptyKind") {
			return Val{Kind: "emptyarr"}
		}
		return Val{Kind: "emptyobj"}
	case 11:
		// an or-rule mixing a built-in type and a scalar user type
		if tt, ok := g.refTarget(self, "orRuleT", "int", "str"); ok {
			return Val{Kind: "orrule", Int: g.num(), Str: "integer", Ref: tt.name}
		}
	case 0:
		if tt, ok := g.refTarget(self, "refT", "obj", "int", "regex", "arr"); ok {
			return Val{Kind: "ref", Ref: tt.name}
		}
	case 1:
		if tt, ok := g.refTarget(self, "arrT", "obj", "int"); ok {
			return Val{Kind: "arrref", Ref: tt.name}
		}
	case 2:
		if len(g.enums) > 0 {
			e := g.pickStr(g.enums, "enum")
			return Val{Kind: "enumstr", Str: g.enumV[e], Enum: e}
		}
	case 3:
		return Val{Kind: "str", Str: fmt.Sprintf("s%d", g.num())}
	case 4:
		return Val{Kind: "bool"}
	case 5:
		a, ok1 := g.refTarget(self, "orA", "obj")
		b, ok2 := g.refTarget(self, "orB", "obj", "int")
		if ok1 && ok2 && a.name != b.name {
			return Val{Kind: "or", Ref: a.name, Ref2: b.name}
		}
	case 6:
		if tt, ok := g.refTarget(self, "typedT", "int"); ok {
			return Val{Kind: "typed", Int: g.num(), Ref: tt.name}
		}
	case 7:
		if depth < 2 {
			// nested objects may inherit too (only from types without bases of
			// their own, so that no key can arrive twice)
			nested := g.chance(1, 3, "nestedAllOf")
			if g.o.Inheritance {
				nested = g.chance(2, 3, "nestedAllOfBoost")
			}
			return Val{Kind: "obj", Obj: g.obj(self, depth+1, nested)}
		}
	case 8:
		return Val{Kind: "int", Int: g.num(), Optional: true}
	case 9:
		if depth < 2 && g.chance(1, 2, "arrobj") {
			v := Val{Kind: "arrobj", Obj: g.obj(self, depth+1, g.chance(1, 2, "arrobjAllOf"))}
			if g.chance(1, 3, "arrWrap") {
				v.Wrap = 1 + g.intn(2, "arrWrapN")
			}
			return v
		}
	}
	return Val{Kind: "int", Int: g.num()}
}

// obj draws an object schema. allowAllOf: bases are object types with a larger
// index; two bases only when neither has bases of its own (no diamonds).
func (g *gen) obj(self int, depth int, allowAllOf bool) *Obj {
	o := &Obj{}
	if allowAllOf && g.chance(1, 2, "allOf") {
		var leaf, any []genType
		for i := self + 1; i < len(g.types); i++ {
			if g.types[i].kind == "obj" {
				any = append(any, g.types[i])
				if !g.types[i].hasAll {
					leaf = append(leaf, g.types[i])
				}
			}
		}
		switch {
		case depth > 0:
			if len(leaf) >= 1 {
				o.AllOf = []string{leaf[g.intn(len(leaf), "nb")].name}
			}
		case len(leaf) >= 2 && g.chance(1, 3, "twoBases"):
			i := g.intn(len(leaf), "b1")
			j := g.intn(len(leaf)-1, "b2")
			if j >= i {
				j++
			}
			o.AllOf = []string{leaf[i].name, leaf[j].name}
		case len(any) >= 1:
			// prefer a base that has bases itself (chains of depth >= 2)
			var chained []genType
			for _, x := range any {
				if x.hasAll {
					chained = append(chained, x)
				}
			}
			if len(chained) > 0 && g.chance(1, 2, "chain") {
				o.AllOf = []string{chained[g.intn(len(chained), "cb")].name}
			} else {
				o.AllOf = []string{any[g.intn(len(any), "b")].name}
			}
		}
	}
	np := 1 + g.intn(3, "nprops")
	// an object that only inherits (`{} // {allOf: ...}`), or an empty base
	if (len(o.AllOf) > 0 && g.chance(1, 4, "emptyHeir")) || (len(o.AllOf) == 0 && depth == 0 && self >= 0 && g.chance(1, 12, "emptyObj")) {
		np = 0
	}
	for i := 0; i < np; i++ {
		o.Props = append(o.Props, Prop{Key: fmt.Sprintf("k%d", g.num()), V: g.propVal(self, depth)})
	}
	// a property whose key is described by a string user type
	if g.chance(1, 6, "keyRef") {
		for i := self + 1; i < len(g.types); i++ {
			if i >= 0 && g.types[i].kind == "str" && !g.usedKeyTypes[g.types[i].name] {
				g.usedKeyTypes[g.types[i].name] = true
				kv := Val{Kind: "int", Int: g.num()}
				if g.chance(1, 2, "keyRefVal") {
					kv = g.propVal(self, depth) // any value kind, objects and arrays included
				}
				o.Props = append([]Prop{{Key: g.types[i].name, KeyRef: true, V: kv}}, o.Props...)
				break
			}
		}
	}
	return o
}

func (g *gen) objSchema(allowAllOf bool) *Schema {
	return &Schema{Notation: "jsight", Root: "obj", Obj: g.obj(-1, 0, allowAllOf)}
}

// flatObj: object with scalar properties only (Headers-like, Path-like).
func (g *gen) flatObj(keys ...string) *Schema {
	o := &Obj{}
	for _, k := range keys {
		v := Val{Kind: "int", Int: g.num()}
		switch g.intn(4, "flatKind") {
		case 0:
			v = Val{Kind: "str", Str: fmt.Sprintf("s%d", g.num())}
		case 1:
			if tt, ok := g.refTarget(-1, "flatT", "int", "str", "regex", "bool"); ok {
				v = Val{Kind: "ref", Ref: tt.name}
			}
		case 2:
			if g.chance(1, 2, "flatOrRule") {
				if tt, ok := g.refTarget(-1, "flatOrT", "int", "str"); ok {
					v = Val{Kind: "orrule", Int: g.num(), Str: "integer", Ref: tt.name}
				}
			} else {
				v.Optional = true
			}
		}
		o.Props = append(o.Props, Prop{Key: k, V: v})
	}
	return &Schema{Notation: "jsight", Root: "obj", Obj: o}
}

// headers: a flat object, sometimes inheriting from an object type.
func (g *gen) headers() *Schema {
	s := g.flatObj(fmt.Sprintf("H%d", g.num()))
	num, den := 1, 4
	if g.o.Inheritance {
		num, den = 2, 3
	}
	if g.chance(num, den, "headersAllOf") {
		var bases []genType
		for _, t := range g.types {
			if t.kind == "obj" {
				bases = append(bases, t)
			}
		}
		if len(bases) > 0 {
			s.Obj.AllOf = []string{bases[g.intn(len(bases), "hb")].name}
		}
	}
	return s
}

// bodySchema draws the body specification of a request / response / Body.
func (g *gen) bodySchema() *Schema {
	switch g.intn(8, "bodyKind") {
	case 0:
		return &Schema{Notation: "any", AsParam: true}
	case 1:
		return &Schema{Notation: "empty", AsParam: true}
	case 2:
		if tt, ok := g.refTarget(-1, "bodyRef", "obj", "int", "regex", "arr"); ok {
			return &Schema{Notation: "jsight", Root: "ref", Ref: tt.name, AsParam: true}
		}
	case 3:
		if tt, ok := g.refTarget(-1, "bodyArr", "obj", "int"); ok {
			return &Schema{Notation: "jsight", Root: "arrref", Ref: tt.name, AsParam: true}
		}
	case 4:
		return &Schema{Notation: "regex", Regex: fmt.Sprintf("[a-z]{2}x%d", g.num())}
	case 5:
		a, ok1 := g.refTarget(-1, "bodyOrA", "obj")
		b, ok2 := g.refTarget(-1, "bodyOrB", "obj", "int")
		if ok1 && ok2 && a.name != b.name {
			return &Schema{Notation: "jsight", Root: "or", Ref: a.name, Ref2: b.name}
		}
	case 6:
		if tt, ok := g.refTarget(-1, "bodyRefBody", "obj"); ok {
			return &Schema{Notation: "jsight", Root: "ref", Ref: tt.name}
		}
	}
	return g.objSchema(true)
}

var respCodes = []string{"200", "201", "204", "301", "400", "404", "500"}

func (g *gen) response(code string) *Dir {
	d := g.newDir(code)
	d.Ann = g.annotation()
	if g.chance(1, 4, "respChildBody") {
		if g.chance(1, 2, "respHeaders") {
			h := g.newDir("Headers")
			h.Schema = g.headers()
			d.Children = append(d.Children, h)
		}
		b := g.newDir("Body")
		b.Schema = g.bodySchema()
		d.Children = append(d.Children, b)
		return d
	}
	d.Schema = g.bodySchema()
	if g.chance(1, 5, "respHeadersOnly") {
		h := g.newDir("Headers")
		h.Schema = g.headers()
		d.Children = append(d.Children, h)
	}
	return d
}

func (g *gen) request() *Dir {
	d := g.newDir("Request")
	if g.chance(1, 3, "reqChildBody") {
		if g.chance(1, 2, "reqHeaders") {
			h := g.newDir("Headers")
			h.Schema = g.headers()
			d.Children = append(d.Children, h)
		}
		b := g.newDir("Body")
		b.Schema = g.bodySchema()
		d.Children = append(d.Children, b)
		return d
	}
	d.Schema = g.bodySchema()
	return d
}

// pathParams returns the {name} parameters of a path with their prefixes.
func PathParamsOf(path string) (names, prefixes []string) {
	segs := strings.Split(strings.Trim(path, "/"), "/")
	for i, s := range segs {
		if strings.HasPrefix(s, "{") && strings.HasSuffix(s, "}") && len(s) > 2 {
			names = append(names, s[1:len(s)-1])
			prefixes = append(prefixes, strings.Join(segs[:i+1], "/"))
		}
	}
	return
}

// method draws an HTTP method block. path is "" inside a URL. declared tracks
// the parameter prefixes that already have a Path declaration in the project.
func (g *gen) method(verb, path, fullPath string, declared map[string]bool) *Dir {
	d := g.newDir(verb)
	if path != "" {
		d.Params = []string{path}
	}
	d.Ann = g.annotation()
	if g.chance(1, 3, "mDesc") {
		d.Children = append(d.Children, g.description())
	}
	if len(g.tags) > 0 && (g.chance(1, 3, "mTags") || (g.o.TagsHeavy && g.chance(1, 3, "mTagsHeavy"))) {
		td := g.newDir("Tags", g.pickStr(g.tags, "tag"))
		if g.chance(1, 3, "twoTags") {
			t2 := g.pickStr(g.tags, "tag2")
			if t2 != td.Params[0] {
				td.Params = append(td.Params, t2)
			}
		}
		d.Children = append(d.Children, td)
	}
	if pd := g.pathDirective(fullPath, declared); pd != nil {
		d.Children = append(d.Children, pd)
	}
	if g.chance(1, 4, "mQuery") {
		q := g.newDir("Query")
		if g.chance(1, 2, "qExample") {
			q.Params = []string{fmt.Sprintf("a=%d&b=x y", g.num())}
		}
		if g.chance(1, 4, "qFormat") {
			q.Params = append(q.Params, g.pickStr([]string{"htmlFormEncoded", "noFormat"}, "fmt"))
		}
		q.Schema = g.objSchema(true)
		d.Children = append(d.Children, q)
	}
	// a method-level PASTE of a responses macro goes before Request/responses
	if m := g.macroFor("responses"); m != nil && g.chance(1, 3, "mPaste") {
		d.Children = append(d.Children, g.paste(m))
	}
	if m := g.macroFor("methodkids"); m != nil && g.chance(1, 4, "mPaste2") && d.Child("Description") == nil && d.Child("Query") == nil {
		d.Children = append(d.Children, g.paste(m))
	} else if g.chance(1, 3, "mRequest") {
		d.Children = append(d.Children, g.request())
	}
	nr := g.intn(4, "nresp")
	for i := 0; i < nr; i++ {
		r := g.response(g.pickStr(respCodes, "code"))
		if m := g.macroFor("respbody"); m != nil && g.chance(1, 4, "rPaste") {
			r.Schema = nil
			r.Children = []*Dir{g.paste(m)}
		}
		d.Children = append(d.Children, r)
	}
	// Description / Tags / Path / Query may stand anywhere among the method's
	// children (requests and responses do not admit them); PASTE stays where it
	// is, a request or response before it would adopt it
	if g.chance(1, 2, "shuffleMethodKids") {
		var movable []*Dir
		var rest []*Dir
		for _, c := range d.Children {
			switch c.Kw {
			case "Description", "Tags", "Path", "Query":
				movable = append(movable, c)
			default:
				rest = append(rest, c)
			}
		}
		for _, m := range movable {
			// not before a PASTE of method children (its Description / Query would then come second)
			lo := 0
			for i, c := range rest {
				if c.Kw == "PASTE" {
					lo = i + 1
				}
			}
			pos := lo + g.intn(len(rest)-lo+1, "kidPos")
			if m.Kw == "Description" && pos > 0 && rest[pos-1].Kw == "Description" {
				pos = lo
			}
			nr := append([]*Dir{}, rest[:pos]...)
			nr = append(nr, m)
			rest = append(nr, rest[pos:]...)
		}
		d.Children = rest
	}
	return d
}

// pathDirective possibly declares some of the still undeclared parameters of
// fullPath.
func (g *gen) pathDirective(fullPath string, declared map[string]bool) *Dir {
	names, prefixes := PathParamsOf(fullPath)
	var keys []string
	for i, n := range names {
		if !declared[prefixes[i]] && g.chance(1, 2, "declParam") {
			keys = append(keys, n)
			declared[prefixes[i]] = true
		}
	}
	if len(keys) == 0 {
		return nil
	}
	pd := g.newDir("Path")
	pd.Schema = g.flatObj(keys...)
	return pd
}

func (g *gen) macroFor(target string) *genMacro {
	var cand []*genMacro
	for _, m := range g.macros {
		if m.target == target && m.pasted < m.maxUses {
			cand = append(cand, m)
		}
	}
	if len(cand) == 0 {
		return nil
	}
	return cand[g.intn(len(cand), "macroFor")]
}

func (g *gen) paste(m *genMacro) *Dir {
	m.pasted++
	return g.newDir("PASTE", m.name)
}

// GenDoc draws a document that the language reference says must be accepted.
func GenDoc(t *rapid.T, o GenOpts) *Doc {
	g := &gen{t: t, o: o, enumV: map[string]string{}, usedKeyTypes: map[string]bool{}}
	if o.MaxTypes == 0 {
		o.MaxTypes = 7
	}
	doc := &Doc{}
	doc.Top = append(doc.Top, g.newDir("JSIGHT", "0.3"))
	var blocks []*Dir

	// names first, so that references can point forwards and backwards
	nt := g.intn(o.MaxTypes+1, "ntypes")
	for i := 0; i < nt; i++ {
		k := "obj"
		tk := g.intn(9, "typeKind")
		if o.Inheritance && tk < 4 && g.chance(1, 2, "objBoost") {
			tk = 7
		}
		switch tk {
		case 0:
			k = "int"
		case 1:
			k = "regex"
		case 2:
			k = "any"
		case 3:
			k = "arr"
		case 4:
			k = "str"
		case 8:
			k = "bool"
		}
		g.types = append(g.types, genType{name: fmt.Sprintf("@t%d", g.num()), kind: k})
	}
	ne := g.intn(3, "nenums")
	for i := 0; i < ne; i++ {
		e := fmt.Sprintf("@e%d", g.num())
		g.enums = append(g.enums, e)
		g.enumV[e] = fmt.Sprintf("v%d", g.num())
	}
	ng := g.intn(3, "ntags")
	if o.TagsHeavy {
		ng = 1 + g.intn(4, "ntagsHeavy")
	}
	for i := 0; i < ng; i++ {
		if g.chance(1, 4, "tagNamedLikePath") {
			// a declared tag whose name equals the automatic tag of a later path
			n := g.num()
			g.reservedF = append(g.reservedF, n)
			g.tags = append(g.tags, fmt.Sprintf("@p%d", n))
			continue
		}
		g.tags = append(g.tags, fmt.Sprintf("@g%d", g.num()))
	}

	// type bodies are drawn from the last index to the first so that hasAll of
	// the possible bases is known
	typeDirs := make([]*Dir, nt)
	for i := nt - 1; i >= 0; i-- {
		tt := g.types[i]
		d := g.newDir("TYPE", tt.name)
		d.Ann = g.annotation()
		switch tt.kind {
		case "obj":
			o := g.obj(i, 0, true)
			g.types[i].hasAll = len(o.AllOf) > 0
			d.Schema = &Schema{Notation: "jsight", Root: "obj", Obj: o}
		case "int":
			d.Schema = &Schema{Notation: "jsight", Root: "int", Int: g.num()}
		case "str":
			d.Schema = &Schema{Notation: "jsight", Root: "str", Str: fmt.Sprintf("text%d", g.num())}
		case "bool":
			d.Schema = &Schema{Notation: "jsight", Root: "bool"}
		case "regex":
			d.Schema = &Schema{Notation: "regex", Regex: fmt.Sprintf("[a-z]{3}r%d", g.num())}
		case "any":
			d.Schema = &Schema{Notation: "any", AsParam: true}
		case "arr":
			if ref, ok := g.refTarget(i, "arrOf", "obj", "int"); ok {
				d.Schema = &Schema{Notation: "jsight", Root: "arrref", Ref: ref.name}
			} else {
				g.types[i].kind = "int"
				d.Schema = &Schema{Notation: "jsight", Root: "int", Int: g.num()}
			}
		}
		typeDirs[i] = d
	}
	// "any" types cannot be referenced from jsight schemas in a predictable
	// way; keep them but never as a reference target (kinds lists above omit "any")
	blocks = append(blocks, typeDirs...)

	for _, e := range g.enums {
		d := g.newDir("ENUM", e)
		d.Ann = g.annotation()
		d.Enum = []EnumVal{{Str: g.enumV[e]}, {Str: fmt.Sprintf("w%d", g.num())}}
		if g.chance(1, 2, "enumInt") {
			d.Enum = append(d.Enum, EnumVal{IsInt: true, Int: g.num()})
		}
		blocks = append(blocks, d)
	}
	for _, tg := range g.tags {
		d := g.newDir("TAG", tg)
		d.Ann = g.annotation()
		if g.chance(1, 2, "tagDesc") {
			d.Children = append(d.Children, g.description())
		}
		blocks = append(blocks, d)
	}

	// macros are created before the directives that paste them
	var macroDirs []*Dir
	if o.Macros {
		nm := g.intn(4, "nmacros")
		targets := []string{"responses", "respbody", "info", "server", "methodkids", "urlkids", "top"}
		for i := 0; i < nm; i++ {
			m := &genMacro{name: fmt.Sprintf("@m%d", g.num()), target: g.pickStr(targets, "mtarget"), maxUses: 3}
			md := g.newDir("MACRO", m.name)
			md.Explicit = true
			switch m.target {
			case "responses":
				md.Children = append(md.Children, g.response(g.pickStr([]string{"418", "419", "451"}, "mcode")))
				if g.chance(1, 2, "m2") {
					md.Children = append(md.Children, g.response(g.pickStr([]string{"502", "503"}, "mcode2")))
				}
			case "respbody":
				if g.chance(1, 2, "mh") {
					h := g.newDir("Headers")
					h.Schema = g.flatObj(fmt.Sprintf("H%d", g.num()))
					md.Children = append(md.Children, h)
				}
				b := g.newDir("Body")
				b.Schema = g.bodySchema()
				md.Children = append(md.Children, b)
			case "info":
				md.Children = append(md.Children, g.newDir("Version", fmt.Sprintf("1.%d", g.num())))
				m.maxUses = 1
			case "server":
				md.Children = append(md.Children, g.newDir("BaseUrl", fmt.Sprintf("https://h%d.example/", g.num())))
			case "methodkids":
				md.Children = append(md.Children, g.description())
				if g.chance(1, 2, "mq") {
					q := g.newDir("Query")
					q.Schema = g.objSchema(false)
					md.Children = append(md.Children, q)
				}
				md.Children = append(md.Children, g.request())
			case "urlkids":
				vb := g.pickStr([]string{"PUT", "PATCH"}, "mverb")
				mm := g.newDir(vb)
				if g.chance(1, 2, "mPathKey") {
					m.pathKey = fmt.Sprintf("mk%d", g.num())
					pd := g.newDir("Path")
					pd.Schema = g.flatObj(m.pathKey)
					mm.Children = append(mm.Children, pd)
				}
				mm.Children = append(mm.Children, g.response("200"))
				md.Children = append(md.Children, mm)
				m.maxUses = 3
			case "top":
				m.maxUses = 1
				tn := fmt.Sprintf("@mt%d", g.num())
				td := g.newDir("TYPE", tn)
				td.Schema = &Schema{Notation: "jsight", Root: "obj", Obj: &Obj{Props: []Prop{{Key: fmt.Sprintf("k%d", g.num()), V: Val{Kind: "int", Int: g.num()}}}}}
				md.Children = append(md.Children, td)
				if g.chance(1, 2, "mtopEnum") {
					en := fmt.Sprintf("@me%d", g.num())
					ed := g.newDir("ENUM", en)
					ed.Enum = []EnumVal{{Str: fmt.Sprintf("v%d", g.num())}}
					md.Children = append(md.Children, ed)
				}
				if g.chance(1, 2, "mtopMethod") {
					p := fmt.Sprintf("/mp%d", g.num())
					mm := g.newDir("POST", p)
					mm.Children = append(mm.Children, g.response("200"))
					md.Children = append(md.Children, mm)
				}
			}
			// a macro that only pastes an earlier macro of the same target (nesting)
			if prev := g.macroFor(m.target); prev != nil && prev.maxUses >= 3 && g.chance(1, 3, "mnest") {
				md.Children = append([]*Dir{g.paste(prev)}, md.Children...)
				if m.target == "responses" && g.chance(1, 2, "mnestTwice") {
					// the same (or another) inner macro once more: response codes may repeat
					if p2 := g.macroFor(m.target); p2 != nil {
						// directly after the first PASTE: after a response it would be
						// adopted by that response
						md.Children = append([]*Dir{md.Children[0], g.paste(p2)}, md.Children[1:]...)
					}
				}
				if m.target != "responses" {
					// singleton children (Body, BaseUrl, Description, ...): the nested
					// paste replaces the macro's own children
					md.Children = md.Children[:1]
					m.pathKey = prev.pathKey
				}
			}
			m.dir = md
			g.macros = append(g.macros, m)
			macroDirs = append(macroDirs, md)
		}
	}

	if g.chance(2, 3, "info") {
		info := g.newDir("INFO")
		hasVersion := false
		if g.chance(3, 4, "title") {
			info.Children = append(info.Children, g.newDir("Title", fmt.Sprintf("%s %d", g.pickStr(titlePool, "title"), g.num())))
		}
		if m := g.macroFor("info"); m != nil && g.chance(1, 2, "infoPaste") {
			info.Children = append(info.Children, g.paste(m))
			hasVersion = true
		}
		if !hasVersion && g.chance(1, 2, "version") {
			info.Children = append(info.Children, g.newDir("Version", fmt.Sprintf("%d.%d", g.num(), g.intn(10, "minor"))))
		}
		if g.chance(1, 2, "infoDesc") || len(info.Children) == 0 {
			info.Children = append(info.Children, g.description())
		}
		blocks = append(blocks, info)
	}
	ns := g.intn(3, "nservers")
	for i := 0; i < ns; i++ {
		s := g.newDir("SERVER", fmt.Sprintf("@s%d", g.num()))
		s.Ann = g.annotation()
		if m := g.macroFor("server"); m != nil && g.chance(1, 2, "serverPaste") {
			s.Children = append(s.Children, g.paste(m))
		} else {
			s.Children = append(s.Children, g.newDir("BaseUrl", fmt.Sprintf("https://s%d.example/v 1", g.num())))
		}
		blocks = append(blocks, s)
	}

	// resources
	declared := map[string]bool{}
	verbs := []string{"GET", "POST", "PUT", "PATCH", "DELETE"}
	nres := 1 + g.intn(4, "nres")
	if o.PathHeavy {
		nres = 2 + g.intn(5, "nresHeavy")
	}
	for i := 0; i < nres; i++ {
		f := 0
		if len(g.reservedF) > 0 {
			f, g.reservedF = g.reservedF[0], g.reservedF[1:]
		} else {
			f = g.num()
		}
		base := fmt.Sprintf("/p%d", f)
		shape := g.intn(7, "pathShape")
		if o.PathHeavy && shape > 3 && g.chance(2, 3, "paramBoost") {
			shape = g.intn(4, "pathShapeHeavy")
		}
		switch shape {
		case 3:
			base += fmt.Sprintf("/{a%d}/{c%d}/z/{d%d}", f, f, f)
		case 0:
			base += fmt.Sprintf("/{a%d}", f)
		case 1:
			base += fmt.Sprintf("/x/{a%d}/y", f)
		case 2:
			base += fmt.Sprintf("/{a%d}/{c%d}", f, f)
		}
		switch g.intn(4, "resKind") {
		case 0, 1: // URL block with methods, possibly followed by hoisted path-bearing methods
			var um *genMacro
			if m := g.macroFor("urlkids"); m != nil && g.chance(1, 3, "uPaste") {
				um = m
				if m.pathKey != "" {
					// the pasted method declares this parameter itself
					base += "/{" + m.pathKey + "}"
					_, prefixes := PathParamsOf(base)
					declared[prefixes[len(prefixes)-1]] = true
				}
			}
			u := g.newDir("URL", base)
			if len(g.tags) > 0 && (g.chance(1, 3, "uTags") || (o.TagsHeavy && g.chance(1, 2, "uTagsHeavy"))) {
				u.Children = append(u.Children, g.newDir("Tags", g.pickStr(g.tags, "utag")))
			}
			if pd := g.pathDirective(base, declared); pd != nil {
				u.Children = append(u.Children, pd)
			}
			if um != nil {
				u.Children = append(u.Children, g.paste(um))
			}
			k := 1 + g.intn(2, "nverbs")
			used := map[string]bool{"PUT": true, "PATCH": true} // reserved for the urlkids macros
			for j := 0; j < k; j++ {
				vb := g.pickStr([]string{"GET", "POST", "DELETE"}, "verb")
				if used[vb] {
					continue
				}
				used[vb] = true
				u.Children = append(u.Children, g.method(vb, "", base, declared))
			}
			// URL-level Tags / Path may also follow a method (whose children then
			// need parentheses - FixContexts adds them)
			if g.chance(1, 3, "urlKidsLate") {
				var early, late, methods []*Dir
				for _, c := range u.Children {
					if (c.Kw == "Tags" || c.Kw == "Path") && g.chance(1, 2, "moveLate") {
						late = append(late, c)
					} else if IsVerb(c.Kw) {
						methods = append(methods, c)
					} else {
						early = append(early, c)
					}
				}
				if len(late) > 0 && len(methods) > 0 && len(methods[len(methods)-1].Children) > 0 {
					u.Children = append(append(early, methods...), late...)
				}
			}
			blocks = append(blocks, u)
			if u.Child("Protocol") == nil && g.chance(1, 4, "samePathMethod") {
				// a path-bearing method on the URL's own path (another verb), written
				// right after the URL block
				for _, vb := range []string{"PUT", "PATCH", "DELETE", "POST", "GET"} {
					if !used[vb] && u.Child("PASTE") == nil {
						sm := g.method(vb, base, base, declared)
						sm.Hoisted = true
						blocks[len(blocks)-1] = &Dir{ID: -1, Kw: "__unit__", Children: []*Dir{u, sm}}
						break
					}
				}
			} else if g.chance(1, 3, "hoisted") {
				sub := base + fmt.Sprintf("/sub/{b%d}", f)
				hm := g.method(g.pickStr(verbs, "hverb"), sub, sub, declared)
				hm.Hoisted = true
				// a hoisted method must directly follow its URL block: keep both as one unit
				u2 := blocks[len(blocks)-1]
				blocks[len(blocks)-1] = &Dir{ID: -1, Kw: "__unit__", Children: []*Dir{u2, hm}}
			}
		case 2: // path-bearing method at the top level
			blocks = append(blocks, g.method(g.pickStr(verbs, "tverb"), base, base, declared))
		case 3: // JSON-RPC
			u := g.newDir("URL", base)
			u.Children = append(u.Children, g.newDir("Protocol", "json-rpc-2.0"))
			nm := 1 + g.intn(2, "nrpc")
			for j := 0; j < nm; j++ {
				mname := fmt.Sprintf("m%d", g.num())
				if g.chance(1, 3, "sharedRpcName") {
					// the same method name may be used on several URLs (the path is part of the identifier)
					mname = fmt.Sprintf("shared%d", j)
				}
				m := g.newDir("Method", mname)
				m.Ann = g.annotation()
				if g.chance(1, 3, "rpcDesc") {
					m.Children = append(m.Children, g.description())
				}
				var pr []*Dir
				if g.chance(2, 3, "rpcParams") {
					p := g.newDir("Params")
					p.Schema = g.objSchema(true)
					pr = append(pr, p)
				}
				if g.chance(1, 2, "rpcResult") {
					p := g.newDir("Result")
					p.Schema = g.objSchema(true)
					pr = append(pr, p)
				}
				if len(pr) == 2 && g.chance(1, 2, "resultFirst") {
					pr[0], pr[1] = pr[1], pr[0]
				}
				m.Children = append(m.Children, pr...)
				if len(g.tags) > 0 && g.chance(1, 3, "rpcTags") {
					m.Children = append(m.Children, g.newDir("Tags", g.pickStr(g.tags, "rtag")))
				}
				u.Children = append(u.Children, m)
			}
			blocks = append(blocks, u)
		}
	}
	blocks = append(blocks, macroDirs...)

	// shuffle the blocks (Fisher-Yates with rapid draws)
	for i := len(blocks) - 1; i > 0; i-- {
		j := g.intn(i+1, "shuffle")
		blocks[i], blocks[j] = blocks[j], blocks[i]
	}
	// top-level PASTE of "top" macros goes right after JSIGHT (the one place
	// where it is certainly a top-level directive)
	var latePastes []*Dir
	for _, m := range g.macros {
		if m.target == "top" && m.pasted == 0 && g.chance(2, 3, "topPaste") {
			if o.TopPasteAnywhere && g.chance(1, 2, "latePaste") {
				latePastes = append(latePastes, g.paste(m))
			} else {
				doc.Top = append(doc.Top, g.paste(m))
			}
		}
	}
	for _, pd := range latePastes {
		// positions where the previous block cannot adopt a PASTE
		var pos []int
		for i := 0; i <= len(blocks); i++ {
			ok := true
			if i > 0 {
				prev := blocks[i-1]
				switch {
				case prev.Kw == "TYPE" || prev.Kw == "ENUM" || prev.Kw == "MACRO" || prev.Kw == "PASTE":
				case prev.Kw == "TAG" && len(prev.Children) == 0:
				default:
					ok = false
				}
			}
			if ok {
				pos = append(pos, i)
			}
		}
		i := pos[g.intn(len(pos), "latePastePos")]
		nb := append([]*Dir{}, blocks[:i]...)
		nb = append(nb, pd)
		blocks = append(nb, blocks[i:]...)
	}
	for _, b := range blocks {
		if b.Kw == "__unit__" {
			doc.Top = append(doc.Top, b.Children...)
		} else {
			doc.Top = append(doc.Top, b)
		}
	}
	// some directives get model-level explicit parentheses
	doc.Walk(func(d, _ *Dir) {
		if len(d.Children) > 0 && d.Kw != "MACRO" && CanBeExplicit(d) && g.chance(1, 8, "explicit") {
			d.Explicit = true
		}
	})
	if !doc.FixContexts() {
		panic("generator produced a document whose text cannot mean its model: " + doc.ResolveCheck())
	}
	return doc
}

// Blocks splits the top-level directives into the fixed header (JSIGHT and the
// top-level PASTEs that directly follow it) and the permutable units (a URL
// with the hoisted methods that directly follow it is one unit).
func (doc *Doc) Blocks() (header []*Dir, units [][]*Dir) {
	i := 0
	for i < len(doc.Top) && (doc.Top[i].Kw == "JSIGHT" || doc.Top[i].Kw == "PASTE") {
		header = append(header, doc.Top[i])
		i++
	}
	for i < len(doc.Top) {
		u := []*Dir{doc.Top[i]}
		i++
		for i < len(doc.Top) && doc.Top[i].Hoisted {
			u = append(u, doc.Top[i])
			i++
		}
		units = append(units, u)
	}
	return
}
