// Package vlib is the shared machinery of the property checks: the per-test
// harness (campaign runner, statistics, known findings, replay files), the
// library runner, the document model with its generator and renderer, and the
// reference semantics the oracles are built from.
package vlib

import (
	"crypto/sha256"
	"encoding/binary"
	"encoding/hex"
	"encoding/json"
	"flag"
	"fmt"
	"hash/fnv"
	"os"
	"path/filepath"
	"sort"
	"strconv"
	"strings"
	"sync/atomic"
	"syscall"
	"testing"
	"time"

	"pgregory.net/rapid"
)

// Failure is what an oracle returns for a case that breaks the property.
type Failure struct {
	// Key is the root-cause key used to match known findings.
	Key string `json:"key"`
	// Msg says what was expected and what was seen.
	Msg string `json:"msg"`
}

func Failf(key, format string, a ...any) *Failure {
	return &Failure{Key: key, Msg: fmt.Sprintf(format, a...)}
}

// Info is filled by the oracle for every case: classification for the
// evidence file.
type Info struct {
	// NonTrivial: the case satisfies the property's stated non-triviality rule.
	NonTrivial bool
	// Classes the case belongs to (histogram in the evidence file).
	Classes []string
	// Fingerprint distinguishes cases; when zero the harness hashes the JSON of
	// the case.
	Fingerprint uint64
	// Sample overrides what is written to the evidence samples (default: the
	// case itself).
	Sample any
	// Excluded: the generator/oracle left this case out because of a known
	// finding; the string names the finding.
	Excluded string
}

func (i *Info) Class(c string) { i.Classes = append(i.Classes, c) }

type knownFinding struct {
	Property string `json:"property"`
	Key      string `json:"key"`
	Status   string `json:"status"` // "known" | "fixed"
	What     string `json:"what"`
	Replay   string `json:"replay,omitempty"`
	Commit   string `json:"commit,omitempty"`
}

type replayFile struct {
	Property string          `json:"property"`
	Campaign string          `json:"campaign"`
	Key      string          `json:"key"`
	Msg      string          `json:"msg"`
	Case     json.RawMessage `json:"case"`
}

type campaignStats struct {
	Evaluations int64 `json:"evaluations"`
	NonTrivial  int64 `json:"nontrivial"`
	Exhaustive  bool  `json:"exhaustive"`
	Planned     int64 `json:"planned"`
}

type violation struct {
	Campaign string `json:"campaign"`
	Key      string `json:"key"`
	Msg      string `json:"msg"`
	Replay   string `json:"replay"`
}

// shardOut is what one shard of one check writes for the driver.
type shardOut struct {
	Property     string                    `json:"property"`
	Tier         string                    `json:"tier"`
	Seed         uint64                    `json:"seed"`
	Shard        int                       `json:"shard"`
	Rule         string                    `json:"rule"`
	Level        string                    `json:"level"`
	Assumptions  []string                  `json:"assumptions"`
	Campaigns    map[string]*campaignStats `json:"campaigns"`
	Classes      map[string]int64          `json:"classes"`
	Required     []string                  `json:"required_classes"`
	Samples      []any                     `json:"samples"`
	KnownHits    map[string]int64          `json:"known_hits"`
	KnownSamples map[string]any            `json:"known_samples"`
	Excluded     map[string]int64          `json:"excluded"`
	Violations   []violation               `json:"violations"`
	Notes        []string                  `json:"notes"`
	WallS        float64                   `json:"wall_s"`
	Done         bool                      `json:"done"`
}

// H is the per-test harness.
type H struct {
	T        *testing.T
	Prop     string
	Tier     string
	Seed     uint64
	Shard    int
	NShards  int
	outDir   string
	verifDir string
	replay   *replayFile
	known    map[string]knownFinding
	out      shardOut
	hashes   map[uint64]struct{}
	start    time.Time
	nsample  map[string]int
	failed   bool
	journal  *os.File
	cur      atomic.Pointer[curCase]
	hangS    int
	slow     map[string]bool
}

type curCase struct {
	campaign string
	c        any
	start    time.Time
}

func envInt(name string, def int) int {
	if v := os.Getenv(name); v != "" {
		if n, err := strconv.Atoi(v); err == nil {
			return n
		}
	}
	return def
}

// VerifDir is the root of the verification tree (the directory holding
// known_findings.json).
func VerifDir() string {
	if d := os.Getenv("VERIF_DIR"); d != "" {
		return d
	}
	d, _ := os.Getwd()
	for d != "/" {
		if _, err := os.Stat(filepath.Join(d, "known_findings.json")); err == nil {
			return d
		}
		d = filepath.Dir(d)
	}
	return "/verif"
}

// New creates the harness for one property test.
func New(t *testing.T, prop, level, rule string, assumptions ...string) *H {
	h := &H{
		T:        t,
		Prop:     prop,
		Tier:     os.Getenv("VERIF_TIER"),
		Shard:    envInt("VERIF_SHARD", 0),
		NShards:  envInt("VERIF_NSHARDS", 1),
		outDir:   os.Getenv("VERIF_OUT"),
		verifDir: VerifDir(),
		hashes:   map[uint64]struct{}{},
		start:    time.Now(),
		nsample:  map[string]int{},
		known:    map[string]knownFinding{},
	}
	if h.Tier == "" {
		h.Tier = "quick"
	}
	if v := os.Getenv("VERIF_SEED"); v != "" {
		n, err := strconv.ParseInt(v, 10, 64)
		if err == nil {
			h.Seed = uint64(n)
		}
	}
	if h.Seed == 0 {
		h.Seed = 1
	}
	h.out = shardOut{
		Property: prop, Tier: h.Tier, Seed: h.Seed, Shard: h.Shard, Rule: rule, Level: level,
		Assumptions: assumptions,
		Campaigns:   map[string]*campaignStats{}, Classes: map[string]int64{},
		KnownHits: map[string]int64{}, KnownSamples: map[string]any{}, Excluded: map[string]int64{},
	}
	if b, err := os.ReadFile(filepath.Join(h.verifDir, "known_findings.json")); err == nil {
		var kk []knownFinding
		if err := json.Unmarshal(b, &kk); err != nil {
			t.Fatalf("known_findings.json: %v", err)
		}
		for _, k := range kk {
			if k.Status == "known" {
				h.known[k.Property+"|"+k.Key] = k
			}
		}
	}
	if p := os.Getenv("VERIF_REPLAY"); p != "" {
		b, err := os.ReadFile(p)
		if err != nil {
			t.Fatalf("replay file: %v", err)
		}
		h.replay = &replayFile{}
		if err := json.Unmarshal(b, h.replay); err != nil {
			t.Fatalf("replay file: %v", err)
		}
	}
	if p := os.Getenv("VERIF_JOURNAL"); p != "" {
		f, err := os.OpenFile(p, os.O_CREATE|os.O_RDWR|os.O_TRUNC, 0o644)
		if err == nil {
			h.journal = f
		}
	}
	_ = flag.Set("rapid.nofailfile", "true")
	t.Cleanup(h.finish)
	h.hangS = envInt("VERIF_HANG_S", 30)
	go h.watchdog()
	return h
}

// watchdog turns a case that does not finish within the hang limit into a
// recorded violation and ends the process (exit code 3): a wedged case cannot
// be interrupted from inside.
func (h *H) watchdog() {
	// samples of (wall clock, CPU time of this process): on an overloaded
	// machine a call can be open for a long time without having run for long,
	// which is slowness of the machine, not a hang of the library
	type sample struct {
		at  time.Time
		cpu time.Duration
	}
	var ring []sample
	cpuSince := func(start time.Time, now time.Duration) time.Duration {
		for _, s := range ring {
			if !s.at.Before(start) {
				return now - s.cpu
			}
		}
		return 0
	}
	for {
		time.Sleep(500 * time.Millisecond)
		cpuNow := processCPU()
		ring = append(ring, sample{time.Now(), cpuNow})
		if len(ring) > 8000 {
			ring = ring[len(ring)-6000:]
		}
		cc := h.cur.Load()
		if cc == nil || h.slow[cc.campaign] {
			continue
		}
		// a hang is one call into the library that does not return within the
		// limit; a case that makes many calls (permutations, repeats) may take
		// longer as a whole, within a generous bound. Both limits count only
		// when the process really had that much CPU time meanwhile (an endless
		// loop burns it), or when five times the wall-clock limit has passed
		// (a call blocked for good burns none).
		limit := time.Duration(h.hangS) * time.Second
		now := time.Now()
		over := func(age, lim time.Duration) bool {
			if age < lim {
				return false
			}
			return age >= 5*lim || cpuSince(now.Add(-age), cpuNow) >= lim*8/10
		}
		if !over(OldestCall(), limit) && !over(time.Since(cc.start), 20*limit) {
			continue
		}
		f := &Failure{Key: "hang", Msg: fmt.Sprintf("case did not finish within %d s", h.hangS)}
		if _, ok := h.known[h.Prop+"|hang"]; !ok {
			p := h.writeReplay(cc.campaign, cc.c, f)
			h.out.Violations = append(h.out.Violations, violation{Campaign: cc.campaign, Key: f.Key, Msg: f.Msg, Replay: p})
		}
		h.Note("hang in campaign %s; process ended", cc.campaign)
		h.finish()
		os.Exit(3)
	}
}

// processCPU returns the CPU time (user + system) this process has used.
func processCPU() time.Duration {
	var ru syscall.Rusage
	if err := syscall.Getrusage(syscall.RUSAGE_SELF, &ru); err != nil {
		return 0
	}
	return time.Duration(ru.Utime.Nano() + ru.Stime.Nano())
}

// SlowCampaign exempts a campaign from the hang watchdog (its single case runs
// a sub-process for minutes; the driver's own time limit still applies).
func (h *H) SlowCampaign(name string) {
	if h.slow == nil {
		h.slow = map[string]bool{}
	}
	h.slow[name] = true
}

// skipped: VERIF_ONLY=<substring> (development aid) runs only the campaigns
// whose name contains it.
func (h *H) skipped(name string) bool {
	only := os.Getenv("VERIF_ONLY")
	return only != "" && !strings.Contains(name, only)
}

// Thorough says whether the thorough tier was requested.
func (h *H) Thorough() bool { return h.Tier == "thorough" }

// N picks the tier's total case count for a campaign and returns this
// shard's part of it.
func (h *H) N(quick, thorough int) int {
	n := quick
	if h.Thorough() {
		n = thorough
	}
	per := n / h.NShards
	if h.Shard < n%h.NShards {
		per++
	}
	return per
}

// Pick returns q in the quick tier and t in the thorough tier.
func (h *H) Pick(q, t int) int {
	if h.Thorough() {
		return t
	}
	return q
}

// Require names a class that must be hit at least once by the whole run
// (all shards together); the driver turns a zero count into exit 2.
func (h *H) Require(classes ...string) { h.out.Required = append(h.out.Required, classes...) }

func (h *H) Note(format string, a ...any) {
	h.out.Notes = append(h.out.Notes, fmt.Sprintf(format, a...))
}

// Exclude counts a case left out because of a known finding.
func (h *H) Exclude(name string) { h.out.Excluded[name]++ }

func (h *H) campaign(name string) *campaignStats {
	c := h.out.Campaigns[name]
	if c == nil {
		c = &campaignStats{}
		h.out.Campaigns[name] = c
	}
	return c
}

func mix(parts ...any) uint64 {
	f := fnv.New64a()
	for _, p := range parts {
		fmt.Fprintf(f, "%v|", p)
	}
	v := f.Sum64()
	if v == 0 {
		v = 1
	}
	return v
}

// SeedFor derives a deterministic non-zero seed for a campaign of this shard.
func (h *H) SeedFor(campaign string) uint64 {
	return mix(h.Seed, h.Prop, campaign, h.Shard)
}

func fingerprint(v any) uint64 {
	f := fnv.New64a()
	switch x := v.(type) {
	case string:
		f.Write([]byte(x))
	case []byte:
		f.Write(x)
	default:
		b, _ := json.Marshal(v)
		f.Write(b)
	}
	return f.Sum64()
}

// Hash64 is a convenience for oracles computing fingerprints.
func Hash64(parts ...any) uint64 { return mix(parts...) }

// Journal records the case about to be executed so that the driver can
// recover it when the process dies or hangs.
func (h *H) Journal(campaign string, c any) {
	h.cur.Store(&curCase{campaign: campaign, c: c, start: time.Now()})
	if h.journal == nil {
		return
	}
	b, _ := json.Marshal(replayFile{Property: h.Prop, Campaign: campaign, Case: mustJSON(c)})
	var hdr [8]byte
	binary.LittleEndian.PutUint64(hdr[:], uint64(len(b)))
	_, _ = h.journal.WriteAt(append(hdr[:], b...), 0)
}

func mustJSON(v any) json.RawMessage {
	b, err := json.Marshal(v)
	if err != nil {
		b, _ = json.Marshal(fmt.Sprintf("%#v", v))
	}
	return b
}

// record books one evaluated case; it returns true when the failure (if any)
// is a violation the caller has to report (false: passed or known finding).
func (h *H) record(campaign string, c any, info *Info, f *Failure) bool {
	cs := h.campaign(campaign)
	cs.Evaluations++
	for _, cl := range info.Classes {
		h.out.Classes[cl]++
	}
	if info.Excluded != "" {
		h.out.Excluded[info.Excluded]++
	}
	if info.NonTrivial {
		cs.NonTrivial++
		fp := info.Fingerprint
		if fp == 0 {
			fp = fingerprint(c)
		}
		h.hashes[mix(campaign, fp)] = struct{}{}
	}
	// a few samples per campaign: the first non-trivial ones and then sparsely
	k := h.nsample[campaign]
	if (info.NonTrivial || cs.Evaluations == 1) && (k < 2 || (k < 4 && cs.Evaluations%997 == 0)) {
		h.nsample[campaign] = k + 1
		s := info.Sample
		if s == nil {
			s = c
		}
		h.out.Samples = append(h.out.Samples, map[string]any{"campaign": campaign, "case": s})
	}
	if f == nil {
		return false
	}
	_, isKnown := h.known[h.Prop+"|"+f.Key]
	if !isKnown && os.Getenv("VERIF_TRIAGE") != "" {
		// development aid: collect every failure key instead of stopping
		isKnown = true
		f.Key = "TRIAGE " + f.Key
	}
	if isKnown {
		h.out.KnownHits[f.Key]++
		if _, ok := h.out.KnownSamples[f.Key]; !ok {
			h.out.KnownSamples[f.Key] = map[string]any{"campaign": campaign, "msg": f.Msg, "case": c}
		}
		return false
	}
	return true
}

func (h *H) writeReplay(campaign string, c any, f *Failure) string {
	rf := replayFile{Property: h.Prop, Campaign: campaign, Key: f.Key, Msg: f.Msg, Case: mustJSON(c)}
	b, _ := json.MarshalIndent(rf, "", " ")
	sum := sha256.Sum256(rf.Case)
	dir := filepath.Join(h.verifDir, "replays")
	_ = os.MkdirAll(dir, 0o755)
	p := filepath.Join(dir, fmt.Sprintf("%s-%s-%s.json", h.Prop, sanitize(campaign), hex.EncodeToString(sum[:6])))
	_ = os.WriteFile(p, b, 0o644)
	return p
}

func sanitize(s string) string {
	return strings.Map(func(r rune) rune {
		if r >= 'a' && r <= 'z' || r >= 'A' && r <= 'Z' || r >= '0' && r <= '9' || r == '-' {
			return r
		}
		return '_'
	}, s)
}

func (h *H) violate(campaign string, c any, f *Failure) {
	p := h.writeReplay(campaign, c, f)
	h.failed = true
	h.out.Violations = append(h.out.Violations, violation{Campaign: campaign, Key: f.Key, Msg: f.Msg, Replay: p})
	h.T.Errorf("VIOLATION-CASE property=%s campaign=%s key=%q replay=%s\n%s", h.Prop, campaign, f.Key, p, f.Msg)
}

// replaying reports whether the harness is in replay mode; in that mode a
// campaign runs only when it is the one named in the replay file, and then
// only on the recorded case.
func (h *H) replaying() bool { return h.replay != nil }

func replayCase[C any](h *H, name string, check func(C, *Info) *Failure) {
	if h.replay.Campaign != name {
		return
	}
	var c C
	if err := json.Unmarshal(h.replay.Case, &c); err != nil {
		h.T.Fatalf("replay case does not decode: %v", err)
	}
	info := &Info{}
	f := check(c, info)
	h.campaign(name).Evaluations++
	if f != nil {
		// In replay mode a known key is still reported: the driver decides.
		h.out.Violations = append(h.out.Violations, violation{Campaign: name, Key: f.Key, Msg: f.Msg, Replay: os.Getenv("VERIF_REPLAY")})
		h.T.Logf("REPLAY-FAILS key=%q\n%s", f.Key, f.Msg)
	} else {
		h.T.Logf("REPLAY-PASSES")
	}
}

// Rapid runs a rapid-driven campaign: gen draws a case, check is the oracle.
// n is this shard's number of cases (use h.N).
func Rapid[C any](h *H, name string, n int, gen func(*rapid.T) C, check func(C, *Info) *Failure) {
	if h.replaying() {
		replayCase(h, name, check)
		return
	}
	if n <= 0 || h.skipped(name) {
		return
	}
	h.campaign(name).Planned += int64(n)
	_ = flag.Set("rapid.checks", strconv.Itoa(n))
	_ = flag.Set("rapid.seed", strconv.FormatUint(h.SeedFor(name), 10))
	var lastCase any
	var lastFail *Failure
	ok := h.T.Run(name, func(t *testing.T) {
		rapid.Check(t, func(rt *rapid.T) {
			c := gen(rt)
			h.Journal(name, c)
			info := &Info{}
			f := check(c, info)
			h.cur.Store(nil)
			if h.record(name, c, info, f) {
				lastCase, lastFail = c, f
				rt.Fatalf("%s: %s", f.Key, f.Msg)
			}
		})
	})
	if !ok {
		if lastFail != nil {
			h.violate(name, lastCase, lastFail)
		} else {
			h.failed = true
			h.Note("campaign %s failed without an oracle failure (harness problem)", name)
			h.out.Violations = append(h.out.Violations, violation{Campaign: name, Key: "harness", Msg: "rapid reported a failure that is not an oracle failure (panic in generator or oracle?)"})
		}
	}
}

// Enum runs an enumerated campaign: each yields cases (already restricted to
// this shard by the caller or by h.Mine); the campaign stops at the first
// violation. exhaustive says whether the enumeration covers its finite space
// completely.
func Enum[C any](h *H, name string, exhaustive bool, each func(yield func(C) bool), check func(C, *Info) *Failure) {
	if h.replaying() {
		replayCase(h, name, check)
		return
	}
	if h.skipped(name) {
		return
	}
	cs := h.campaign(name)
	cs.Exhaustive = exhaustive
	each(func(c C) bool {
		h.Journal(name, c)
		info := &Info{}
		f := check(c, info)
		h.cur.Store(nil)
		if h.record(name, c, info, f) {
			h.violate(name, c, f)
			return false
		}
		return true
	})
}

// Mine tells whether the i-th element of an enumeration belongs to this shard.
func (h *H) Mine(i int) bool { return i%h.NShards == h.Shard }

func (h *H) finish() {
	h.out.WallS = time.Since(h.start).Seconds()
	h.out.Done = true
	if h.outDir == "" {
		return
	}
	_ = os.MkdirAll(h.outDir, 0o755)
	base := filepath.Join(h.outDir, fmt.Sprintf("%s.shard%d", h.Prop, h.Shard))
	b, _ := json.Marshal(h.out)
	_ = os.WriteFile(base+".json", b, 0o644)
	hs := make([]uint64, 0, len(h.hashes))
	for k := range h.hashes {
		hs = append(hs, k)
	}
	sort.Slice(hs, func(i, j int) bool { return hs[i] < hs[j] })
	buf := make([]byte, 8*len(hs))
	for i, v := range hs {
		binary.LittleEndian.PutUint64(buf[8*i:], v)
	}
	_ = os.WriteFile(base+".hashes", buf, 0o644)
}
