package vlib

import (
	"fmt"
	"strings"

	"pgregory.net/rapid"
)

var includeNames = []string{"a.jst", "b.jst", "c.jst", "sub/d.jst", "empty.jst", "dir", "missing.jst", "root.jst", "../a.jst", "./a.jst", "/etc/passwd", "sub\\d.jst", "\"a.jst\"", ""}

var fileSnippets = []string{
	"TYPE @t%d\n{\"k%d\": 1}\n",
	"ENUM @e%d\n[1, 2]\n",
	"GET /p%d\n  200 any\n",
	"URL /u%d\n  GET\n    200 any\n",
	"  200 any\n",
	"  Request any\n",
	"SERVER @s%d\n  BaseUrl \"http://x/%d\"\n",
	"TAG @g%d\n",
	"(\n",
	")\n",
	"JSIGHT 0.3\n",
	"# comment %d\n",
	"MACRO @m%d\n(\n  404 any\n)\n",
	"PASTE @m%d\n",
	"Description\n  text %d\n",
	"// note %d\n",
	"\"quoted %d\"\n",
	"{}\n",
}

func genFileBody(t *rapid.T, allowInclude bool) string {
	var sb strings.Builder
	n := rapid.IntRange(0, 5).Draw(t, "nlines")
	for i := 0; i < n; i++ {
		if allowInclude && rapid.IntRange(0, 2).Draw(t, "inc") == 0 {
			ind := rapid.SampledFrom([]string{"", "  ", "\t"}).Draw(t, "ind")
			name := rapid.SampledFrom(includeNames).Draw(t, "name")
			tail := rapid.SampledFrom([]string{"\n", "\n", "\r\n", "", " // note\n", " # c\n", " extra\n"}).Draw(t, "tail")
			sb.WriteString(ind + "INCLUDE " + name + tail)
			continue
		}
		k := rapid.IntRange(1, 3).Draw(t, "k")
		s := rapid.SampledFrom(fileSnippets).Draw(t, "snip")
		if strings.Count(s, "%d") == 2 {
			s = fmt.Sprintf(s, k, k)
		} else if strings.Count(s, "%d") == 1 {
			s = fmt.Sprintf(s, k)
		}
		sb.WriteString(s)
	}
	return sb.String()
}

// GenIncludeProject draws a multi-file project whose include graph may hold
// empty, missing, directory, self-including and mutually including files.
func GenIncludeProject(t *rapid.T) Project {
	p := Project{Files: map[string]string{}, Root: "root.jst", Dirs: []string{"dir"}}
	hdr := rapid.SampledFrom([]string{"JSIGHT 0.3\n", "JSIGHT 0.3\n", "JSIGHT 0.3\n", "", "JSIGHT 0.3"}).Draw(t, "hdr")
	p.Files["root.jst"] = hdr + genFileBody(t, true)
	for _, f := range []string{"a.jst", "b.jst", "c.jst", "sub/d.jst"} {
		if rapid.IntRange(0, 4).Draw(t, "present") > 0 {
			p.Files[f] = genFileBody(t, true)
		}
	}
	p.Files["empty.jst"] = ""
	if rapid.IntRange(0, 3).Draw(t, "ban") == 0 {
		p.Banned = []string{rapid.SampledFrom(KindNames()).Draw(t, "banned")}
	}
	return p
}

var macroItems = []string{
	"PASTE @m%d", "PASTE @m%d", "200 any", "404 any", "TYPE @t%d\n{}", "ENUM @e%d\n[1]",
	"GET /p%d\n  200 any", "URL /u%d\n  GET\n    201 any", "Request any", "Description\n  text",
	"PASTE", "PASTE @zz", "Query {\"q\": 1}", "Tags @g%d", "Title \"T\"", "BaseUrl \"http://x\"",
}

// GenMacroDoc draws a document whose interesting part is its macro / paste
// graph: cycles of any length, chains, undefined and duplicate names.
func GenMacroDoc(t *rapid.T) string {
	var sb strings.Builder
	sb.WriteString("JSIGHT 0.3\n")
	nm := rapid.IntRange(1, 6).Draw(t, "nmacros")
	emit := func(indent string, item string, k int) {
		if strings.Contains(item, "%d") {
			item = fmt.Sprintf(item, k)
		}
		for _, l := range strings.Split(item, "\n") {
			sb.WriteString(indent + l + "\n")
		}
	}
	top := func() {
		switch rapid.IntRange(0, 4).Draw(t, "top") {
		case 0:
			emit("", "PASTE @m%d", rapid.IntRange(1, nm+1).Draw(t, "k"))
		case 1:
			k := rapid.IntRange(1, 9).Draw(t, "k")
			emit("", "GET /g%d", k)
			emit("  ", "PASTE @m%d", rapid.IntRange(1, nm+1).Draw(t, "k2"))
		case 2:
			k := rapid.IntRange(1, 9).Draw(t, "k")
			emit("", "URL /w%d", k)
			emit("  ", "PASTE @m%d", rapid.IntRange(1, nm+1).Draw(t, "k2"))
		case 3:
			emit("", "INFO", 0)
			emit("  ", "PASTE @m%d", rapid.IntRange(1, nm+1).Draw(t, "k2"))
		default:
			emit("", "TYPE @x%d\n{}", rapid.IntRange(1, 9).Draw(t, "k"))
		}
	}
	for i := 1; i <= nm; i++ {
		if rapid.IntRange(0, 2).Draw(t, "before") == 0 {
			top()
		}
		name := i
		if rapid.IntRange(0, 9).Draw(t, "dup") == 0 {
			name = rapid.IntRange(1, nm).Draw(t, "dupname")
		}
		sb.WriteString(fmt.Sprintf("MACRO @m%d\n(\n", name))
		ni := rapid.IntRange(0, 3).Draw(t, "nitems")
		for j := 0; j < ni; j++ {
			it := rapid.SampledFrom(macroItems).Draw(t, "item")
			emit("  ", it, rapid.IntRange(1, nm+1).Draw(t, "k"))
		}
		sb.WriteString(")\n")
	}
	nt := rapid.IntRange(0, 3).Draw(t, "ntop")
	for i := 0; i < nt; i++ {
		top()
	}
	return sb.String()
}

// SizeStress returns a few large inputs (nesting, long line, many directives).
// The sizes keep the typical cost well under the hang limit: the library is
// quadratic in the nesting depth and in the number of user types (measured:
// 4000 one-line types take 34 s, 5000 nested brackets 6 s).
func SizeStress(thorough bool) []string {
	nest, ntypes, long := 1500, 400, 100000
	if thorough {
		nest, ntypes, long = 4000, 1500, 1000000
	}
	var many strings.Builder
	many.WriteString("JSIGHT 0.3\n")
	for i := 0; i < ntypes; i++ {
		fmt.Fprintf(&many, "TYPE @t%d\n{\"a\": %d}\n", i, i)
	}
	var methods strings.Builder
	methods.WriteString("JSIGHT 0.3\n")
	for i := 0; i < ntypes; i++ {
		fmt.Fprintf(&methods, "GET /p%d/{id}\n  200 any\n", i)
	}
	var chain strings.Builder
	chain.WriteString("JSIGHT 0.3\n")
	for i := 0; i < 300; i++ {
		fmt.Fprintf(&chain, "MACRO @m%d\n(\n  PASTE @m%d\n)\n", i, i+1)
	}
	chain.WriteString("MACRO @m300\n(\n  TYPE @t\n  {}\n)\nPASTE @m0\n")
	return []string{
		"JSIGHT 0.3\nTYPE @a\n" + strings.Repeat("[", nest) + strings.Repeat("]", nest),
		"JSIGHT 0.3\nTYPE @a\n" + strings.Repeat("{\"a\":", nest) + "1" + strings.Repeat("}", nest),
		"JSIGHT 0.3\nTYPE @a\n" + strings.Repeat("[", 20*nest),
		"JSIGHT 0.3\nINFO\n  Title \"" + strings.Repeat("x", long) + "\"\n",
		"JSIGHT 0.3\nGET /a // " + strings.Repeat("y ", long/2) + "\n  200 any\n",
		"JSIGHT 0.3\nGET /a\n  Description\n" + strings.Repeat("    line of text\n", long/20) + "  200 any\n",
		many.String(),
		methods.String(),
		chain.String(),
		"JSIGHT 0.3\n" + strings.Repeat("(", long),
		"JSIGHT 0.3\nURL /a\n(\n" + strings.Repeat("GET\n(\n200 any\n(\n)\n)\n", 1) + ")\n",
		"JSIGHT 0.3\nTYPE @a regex\n/" + strings.Repeat("(a|b)*", 300) + "/\n",
		strings.Repeat("#", long),
		strings.Repeat("\n", long) + "JSIGHT 0.3",
	}
}
