package vlib

import (
	"fmt"
	"strings"

	"pgregory.net/rapid"
)

// Permuted returns the document with its permutable units reordered by perm
// (perm[i] = index of the unit that comes i-th).
func (doc *Doc) Permuted(perm []int) *Doc {
	header, units := doc.Blocks()
	nd := &Doc{}
	nd.Top = append(nd.Top, header...)
	for _, i := range perm {
		nd.Top = append(nd.Top, units[i]...)
	}
	return nd
}

// AllPermutations enumerates the permutations of 0..n-1 (Heap's algorithm),
// stopping when yield returns false.
func AllPermutations(n int, yield func([]int) bool) {
	p := make([]int, n)
	for i := range p {
		p[i] = i
	}
	c := make([]int, n)
	if !yield(append([]int(nil), p...)) {
		return
	}
	i := 0
	for i < n {
		if c[i] < i {
			if i%2 == 0 {
				p[0], p[i] = p[i], p[0]
			} else {
				p[c[i]], p[i] = p[i], p[c[i]]
			}
			if !yield(append([]int(nil), p...)) {
				return
			}
			c[i]++
			i = 0
		} else {
			c[i] = 0
			i++
		}
	}
}

// ---------------------------------------------------------------------------
// Splitting into files

type splitter struct {
	t     *rapid.T
	next  int // INCLUDE node ids
	nfile int
	max   int
	used  map[string]bool // resolved file paths already taken
}

// fileName draws a name relative to dir (the directory of the including
// file). Names are reused across directories on purpose (the same relative
// name written in two directories means two different files); the resolved
// path is unique.
func (s *splitter) fileName(dir string, sameDir bool) string {
	for try := 0; try < 20; try++ {
		var name string
		k := rapid.IntRange(1, 3).Draw(s.t, "fileNo")
		shape := rapid.IntRange(0, 4).Draw(s.t, "nameShape")
		if sameDir && shape < 2 {
			// the run holds INCLUDE directives whose names are relative to this
			// directory: the new file has to live in the same directory
			shape = 2 + shape
		}
		switch shape {
		case 0:
			name = fmt.Sprintf("sub%d/common.jst", k)
		case 1:
			name = fmt.Sprintf("inc/deep/f%d.jst", k)
		case 2:
			name = "common.jst"
		default:
			name = fmt.Sprintf("f%d.jst", k)
		}
		// names that differ only in letter case are different files
		if rapid.IntRange(0, 2).Draw(s.t, "upperCase") == 0 {
			i := strings.LastIndex(name, "/") + 1
			name = name[:i] + strings.ToUpper(name[i:i+1]) + name[i+1:]
		}
		if !s.used[dir+name] && dir+name != "root.jst" {
			s.used[dir+name] = true
			return name
		}
	}
	s.nfile++
	name := fmt.Sprintf("u%d.jst", s.nfile)
	s.used[dir+name] = true
	return name
}

func dirOfPath(p string) string {
	for i := len(p) - 1; i >= 0; i-- {
		if p[i] == '/' {
			return p[:i+1]
		}
	}
	return ""
}

// cutRun moves list[a:b] into an INCLUDE node; dir is the directory of the file
// the list is written in.
func (s *splitter) cutRun(list []*Dir, a, b int, depth int, dir string) []*Dir {
	s.next++
	hasInclude := false
	for _, d := range list[a:b] {
		if d.Kw == "INCLUDE" || containsInclude(d) {
			hasInclude = true
		}
	}
	name := s.fileName(dir, hasInclude)
	inc := &Dir{ID: s.next, Kw: "INCLUDE", Params: []string{name}, NoFinalNewline: rapid.IntRange(0, 3).Draw(s.t, "nofinalnl") == 0}
	inc.Included = append(inc.Included, list[a:b]...)
	sub := dirOfPath(dir + name)
	// the moved directives now live in the new file: first move whole runs of
	// them deeper, then cut children of what stays in this file (names are
	// relative to the directory of the file a directive finally lives in)
	if depth < s.max {
		inc.Included = s.splitList(inc.Included, depth+1, true, sub)
	}
	s.childCuts(inc.Included, depth+1, sub)
	out := append([]*Dir{}, list[:a]...)
	out = append(out, inc)
	return append(out, list[b:]...)
}

// splitList cuts runs out of a list of sibling directives. A run never
// separates a URL from the hoisted methods that follow it, and JSIGHT stays in
// the root file.
func (s *splitter) splitList(list []*Dir, depth int, top bool, dir string) []*Dir {
	if depth > s.max {
		return list
	}
	ncuts := rapid.IntRange(0, 2).Draw(s.t, "ncuts")
	for c := 0; c < ncuts; c++ {
		// boundaries: positions i (0..len) where a run may start or end
		var bounds []int
		for i := 0; i <= len(list); i++ {
			if i < len(list) && list[i].Hoisted {
				continue
			}
			if i == 0 && len(list) > 0 && list[0].Kw == "JSIGHT" {
				continue
			}
			bounds = append(bounds, i)
		}
		if len(bounds) == 0 {
			return list
		}
		ai := rapid.IntRange(0, len(bounds)-1).Draw(s.t, "cutFrom")
		bi := ai + rapid.IntRange(0, min(3, len(bounds)-1-ai)).Draw(s.t, "cutLen") // bi == ai: an empty included file
		list = s.cutRun(list, bounds[ai], bounds[bi], depth, dir)
	}
	return list
}

// childCuts walks the tree and cuts runs of children of implicitly nested
// directives (no explicit context anywhere above: an included file inside
// parentheses is not in the property's domain).
func (s *splitter) childCuts(list []*Dir, depth int, dir string) {
	if depth > s.max {
		return
	}
	for _, d := range list {
		if d.Kw == "INCLUDE" {
			continue // already cut (its content was handled when it was moved)
		}
		if d.Explicit || len(d.Children) == 0 {
			continue
		}
		s.childCuts(d.Children, depth, dir)
		if rapid.IntRange(0, 3).Draw(s.t, "childCut") == 0 {
			d.Children = s.splitList(d.Children, depth, false, dir)
		}
	}
}

// SplitIntoFiles returns a copy of the document in which drawn runs of
// complete top-level units, and of complete children of implicitly nested
// directives, are moved into included files (nesting up to maxDepth).
func SplitIntoFiles(t *rapid.T, doc *Doc, maxDepth int) *Doc {
	nd := doc.Copy()
	s := &splitter{t: t, next: nd.MaxID() + 5000, max: maxDepth, used: map[string]bool{}}
	nd.Top = s.splitList(nd.Top, 1, true, "")
	s.childCuts(nd.Top, 1, "")
	return nd
}

// IncludeStats: number of INCLUDE nodes and the maximal include depth.
func (doc *Doc) IncludeStats() (n, maxDepth int) {
	var rec func(list []*Dir, depth int)
	rec = func(list []*Dir, depth int) {
		for _, d := range list {
			if d.Kw == "INCLUDE" {
				n++
				if depth+1 > maxDepth {
					maxDepth = depth + 1
				}
				rec(d.Included, depth+1)
				continue
			}
			rec(d.Children, depth)
		}
	}
	rec(doc.Top, 0)
	return
}

// ---------------------------------------------------------------------------
// Fresh declarations (C20)

// FreshDecl draws a well-formed declaration with fresh names of the given kind.
// The returned unit is a list of top-level directives.
func FreshDecl(t *rapid.T, doc *Doc, kind string) []*Dir {
	id := doc.MaxID() + 9000
	nid := func() int { id++; return id }
	var objTypes []string
	doc.Flat().Walk(func(d, p *Dir) {
		if p == nil && d.Kw == "TYPE" && d.Schema != nil && d.Schema.Root == "obj" && len(d.Params) > 0 {
			objTypes = append(objTypes, d.Params[0])
		}
	})
	any200 := func() *Dir { return &Dir{ID: nid(), Kw: "200", Schema: &Schema{Notation: "any", AsParam: true}} }
	switch kind {
	case "TYPE":
		o := &Obj{Props: []Prop{{Key: "freshKey", V: Val{Kind: "int", Int: 1}}}}
		if len(objTypes) > 0 {
			switch rapid.IntRange(0, 2).Draw(t, "freshTypeShape") {
			case 1:
				o.AllOf = []string{rapid.SampledFrom(objTypes).Draw(t, "freshBase")}
			case 2:
				o.Props = append(o.Props, Prop{Key: "freshRef", V: Val{Kind: "ref", Ref: rapid.SampledFrom(objTypes).Draw(t, "freshRefT")}})
			}
		}
		return []*Dir{{ID: nid(), Kw: "TYPE", Params: []string{"@freshType"}, Schema: &Schema{Notation: "jsight", Root: "obj", Obj: o}}}
	case "ENUM":
		return []*Dir{{ID: nid(), Kw: "ENUM", Params: []string{"@freshEnum"}, Enum: []EnumVal{{Str: "fv"}, {IsInt: true, Int: 7}}}}
	case "SERVER":
		return []*Dir{{ID: nid(), Kw: "SERVER", Params: []string{"@freshServer"}, Children: []*Dir{{ID: nid(), Kw: "BaseUrl", Params: []string{"https://fresh.example/"}}}}}
	case "TAG":
		return []*Dir{{ID: nid(), Kw: "TAG", Params: []string{"@freshTag"}, Ann: "Fresh tag"}}
	case "MACRO":
		return []*Dir{{ID: nid(), Kw: "MACRO", Params: []string{"@freshMacro"}, Explicit: true, Children: []*Dir{any200()}}}
	case "METHOD":
		return []*Dir{{ID: nid(), Kw: "GET", Params: []string{"/freshpath/{fid}"}, Children: []*Dir{any200()}}}
	case "URL":
		u := &Dir{ID: nid(), Kw: "URL", Params: []string{"/freshurl"}}
		u.Children = []*Dir{{ID: nid(), Kw: "POST", Children: []*Dir{any200()}}}
		return []*Dir{u}
	case "URLPATH":
		// a URL block that declares its own path parameter
		// - under a name of its own, or under the name of a parameter that a Path
		// directive elsewhere in the document describes (parameter names are local
		// to a path; the two descriptions differ)
		pname := "fid"
		var declared []string
		doc.Flat().Walk(func(d, p *Dir) {
			if d.Kw == "Path" && d.Schema != nil && d.Schema.Obj != nil {
				for _, pr := range d.Schema.Obj.Props {
					if !pr.KeyRef {
						declared = append(declared, pr.Key)
					}
				}
			}
		})
		if len(declared) > 0 && rapid.Bool().Draw(t, "freshReusesParamName") {
			pname = rapid.SampledFrom(declared).Draw(t, "freshParamName")
		}
		u := &Dir{ID: nid(), Kw: "URL", Params: []string{"/freshurl2/{" + pname + "}"}}
		pd := &Dir{ID: nid(), Kw: "Path", Schema: &Schema{Notation: "jsight", Root: "obj", Obj: &Obj{Props: []Prop{{Key: pname, V: Val{Kind: "str", Str: "fresh-path-value"}}}}}}
		u.Children = []*Dir{pd, {ID: nid(), Kw: "GET", Children: []*Dir{any200()}}}
		return []*Dir{u}
	case "MACRO2":
		// an unused macro that pastes an existing macro twice (no cycle)
		m := &Dir{ID: nid(), Kw: "MACRO", Params: []string{"@freshMacro2"}, Explicit: true}
		name := ""
		doc.Flat().Walk(func(d, p *Dir) {
			if name == "" && d.Kw == "PASTE" && p != nil && IsVerb(p.Kw) && len(d.Params) > 0 {
				name = d.Params[0]
			}
		})
		for i, vb := range []string{"GET", "POST"} {
			md := &Dir{ID: nid(), Kw: vb, Params: []string{fmt.Sprintf("/freshm%d", i)}}
			if name != "" {
				md.Children = append(md.Children, &Dir{ID: nid(), Kw: "PASTE", Params: []string{name}})
			} else {
				md.Children = append(md.Children, any200())
			}
			m.Children = append(m.Children, md)
		}
		return []*Dir{m}
	case "COPY":
		// a copy of an existing top-level method / URL block (one that pastes a
		// macro when there is one) on a path with a fresh first segment
		var cands, withPaste []*Dir
		for i, d := range doc.Top {
			if (d.Kw != "URL" && !IsVerb(d.Kw)) || len(d.Params) == 0 || d.Hoisted || strings.Contains(d.Params[0], " ") {
				continue
			}
			if d.Kw == "URL" && i+1 < len(doc.Top) && doc.Top[i+1].Hoisted {
				continue
			}
			bad, paste := false, false
			var rec func(x *Dir)
			rec = func(x *Dir) {
				if x.Kw == "Tags" || x.Kw == "INCLUDE" {
					bad = true
				}
				if x.Kw == "PASTE" {
					paste = true
				}
				for _, ch := range x.Children {
					rec(ch)
				}
			}
			rec(d)
			// Tags brought in by a pasted macro would change an existing tag's entry
			if paste {
				doc.Walk(func(x, par *Dir) {
					if x.Kw == "Tags" {
						for q := par; q != nil; q = doc.parentOf(q) {
							if q.Kw == "MACRO" {
								bad = true
							}
						}
					}
				})
			}
			if bad {
				continue
			}
			cands = append(cands, d)
			if paste {
				withPaste = append(withPaste, d)
			}
		}
		if len(withPaste) > 0 {
			cands = withPaste
		}
		if len(cands) == 0 {
			return []*Dir{{ID: nid(), Kw: "GET", Params: []string{"/freshp/none"}, Children: []*Dir{any200()}}}
		}
		c := cands[rapid.IntRange(0, len(cands)-1).Draw(t, "copyOf")].Copy()
		var renum func(x *Dir)
		renum = func(x *Dir) {
			x.ID = nid()
			for _, ch := range x.Children {
				renum(ch)
			}
		}
		renum(c)
		c.Params[0] = "/freshp" + c.Params[0]
		return []*Dir{c}
	}
	return nil
}

var FreshKinds = []string{"TYPE", "ENUM", "SERVER", "TAG", "MACRO", "METHOD", "URL", "URLPATH", "MACRO2", "COPY"}

// WithUnitAt inserts the unit before the pos-th permutable unit.
func (doc *Doc) WithUnitAt(unit []*Dir, pos int) *Doc {
	header, units := doc.Blocks()
	nd := &Doc{}
	nd.Top = append(nd.Top, header...)
	for i, u := range units {
		if i == pos {
			nd.Top = append(nd.Top, unit...)
		}
		nd.Top = append(nd.Top, u...)
	}
	if pos >= len(units) {
		nd.Top = append(nd.Top, unit...)
	}
	return nd
}
