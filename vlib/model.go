package vlib

import (
	"fmt"
	"strings"

	"github.com/jsightapi/jsight-api-go-library/directive"
)

// ---------------------------------------------------------------------------
// Schemas of the model: a small grammar whose catalog image is predictable
// without the schema library.

// Val is the value of an object property.
type Val struct {
	// Kind: int | str | bool | ref | arrref | or | enumstr | obj | typed
	Kind     string `json:"kind"`
	Int      int    `json:"int,omitempty"`
	Str      string `json:"str,omitempty"`
	Ref      string `json:"ref,omitempty"`  // ref, arrref, or (first), typed (the scalar user type)
	Ref2     string `json:"ref2,omitempty"` // or (second)
	Enum     string `json:"enum,omitempty"` // enumstr
	Optional bool   `json:"optional,omitempty"`
	Obj      *Obj   `json:"obj,omitempty"`
	// Wrap: arrobj only - number of further arrays around the array of objects
	// (1 = [[ {...} ]]).
	Wrap int `json:"wrap,omitempty"`
}

type Prop struct {
	Key string `json:"key"`
	V   Val    `json:"v"`
	// KeyRef: the key is the name of a (string) user type, written unquoted:
	// the property's key is described by that type.
	KeyRef bool `json:"keyRef,omitempty"`
}

// Obj is an object schema: optional allOf bases and own properties.
type Obj struct {
	AllOf []string `json:"allOf,omitempty"`
	Props []Prop   `json:"props"`
}

// Schema is the body (or type parameter) of a schema-bearing directive.
type Schema struct {
	// Notation: jsight | regex | any | empty
	Notation string `json:"notation"`
	// Root (jsight only): obj | ref | arrref | or | int | str
	Root  string `json:"root,omitempty"`
	Obj   *Obj   `json:"obj,omitempty"`
	Ref   string `json:"ref,omitempty"`
	Ref2  string `json:"ref2,omitempty"`
	Int   int    `json:"int,omitempty"`
	Str   string `json:"str,omitempty"`
	Regex string `json:"regex,omitempty"` // pattern without the slashes
	// AsParam: the schema is written as the directive's parameter (type name,
	// array of type, or the words any / empty) instead of a body.
	AsParam bool `json:"asParam,omitempty"`
	// Raw, when set, replaces the rendered body (fault injection only).
	Raw []string `json:"raw,omitempty"`
}

type EnumVal struct {
	Str   string `json:"str,omitempty"`
	Int   int    `json:"int,omitempty"`
	IsInt bool   `json:"isInt,omitempty"`
}

// Dir is a directive node of the document model.
type Dir struct {
	ID       int       `json:"id"`
	Kw       string    `json:"kw"`
	Params   []string  `json:"params,omitempty"` // semantic values (unquoted)
	Ann      string    `json:"ann,omitempty"`
	Schema   *Schema   `json:"schema,omitempty"`
	Enum     []EnumVal `json:"enum,omitempty"`
	Text     []string  `json:"text,omitempty"` // Description lines
	Children []*Dir    `json:"children,omitempty"`
	// Explicit: the children are written inside parentheses.
	Explicit bool `json:"explicit,omitempty"`
	// Hoisted: a path-bearing method written right after a URL block as if it
	// were nested in it (it resolves to the URL's enclosing context).
	Hoisted bool `json:"hoisted,omitempty"`
	// Included (Kw == "INCLUDE" only): the directives that were moved into the
	// file named by Params[0]. An INCLUDE node is transparent for the meaning of
	// the document: it stands for its Included directives.
	Included []*Dir `json:"included,omitempty"`
	// NoFinalNewline (INCLUDE only): the included file does not end with a line end.
	NoFinalNewline bool `json:"noFinalNewline,omitempty"`
}

// Doc is a document: the top-level directives in order (JSIGHT first).
type Doc struct {
	Top []*Dir `json:"top"`
}

func (d *Dir) Copy() *Dir {
	c := *d
	c.Params = append([]string(nil), d.Params...)
	c.Text = append([]string(nil), d.Text...)
	c.Enum = append([]EnumVal(nil), d.Enum...)
	if d.Schema != nil {
		c.Schema = d.Schema.Copy()
	}
	c.Children = nil
	for _, ch := range d.Children {
		c.Children = append(c.Children, ch.Copy())
	}
	c.Included = nil
	for _, ch := range d.Included {
		c.Included = append(c.Included, ch.Copy())
	}
	return &c
}

// Flatten replaces every INCLUDE node by the directives it stands for.
func Flatten(list []*Dir) []*Dir {
	var out []*Dir
	for _, d := range list {
		if d.Kw == "INCLUDE" {
			out = append(out, Flatten(d.Included)...)
			continue
		}
		c := *d
		c.Children = Flatten(d.Children)
		out = append(out, &c)
	}
	return out
}

// Flat returns the document with all INCLUDE nodes resolved.
func (doc *Doc) Flat() *Doc { return &Doc{Top: Flatten(doc.Top)} }

// HasIncludes reports whether the document holds INCLUDE nodes.
func (doc *Doc) HasIncludes() bool {
	has := false
	doc.walkAll(func(d *Dir) {
		if d.Kw == "INCLUDE" {
			has = true
		}
	})
	return has
}

// walkAll visits every node, INCLUDE nodes and their included directives too.
func (doc *Doc) walkAll(f func(d *Dir)) {
	var rec func(d *Dir)
	rec = func(d *Dir) {
		f(d)
		for _, c := range d.Children {
			rec(c)
		}
		for _, c := range d.Included {
			rec(c)
		}
	}
	for _, d := range doc.Top {
		rec(d)
	}
}

func (s *Schema) Copy() *Schema {
	c := *s
	if s.Obj != nil {
		c.Obj = s.Obj.Copy()
	}
	c.Raw = append([]string(nil), s.Raw...)
	return &c
}

func (o *Obj) Copy() *Obj {
	c := &Obj{AllOf: append([]string(nil), o.AllOf...)}
	for _, p := range o.Props {
		q := p
		if p.V.Obj != nil {
			q.V.Obj = p.V.Obj.Copy()
		}
		c.Props = append(c.Props, q)
	}
	return c
}

func (doc *Doc) Copy() *Doc {
	c := &Doc{}
	for _, d := range doc.Top {
		c.Top = append(c.Top, d.Copy())
	}
	return c
}

// Walk visits every directive (pre-order) with its parent.
func (doc *Doc) Walk(f func(d, parent *Dir)) {
	var rec func(d, p *Dir)
	rec = func(d, p *Dir) {
		f(d, p)
		for _, c := range d.Children {
			rec(c, d)
		}
	}
	for _, d := range doc.Top {
		rec(d, nil)
	}
}

func (doc *Doc) MaxID() int {
	m := 0
	doc.Walk(func(d, _ *Dir) {
		if d.ID > m {
			m = d.ID
		}
	})
	return m
}

// Renumber gives every directive a fresh unique ID (after copying subtrees).
func (doc *Doc) Renumber() {
	n := 0
	doc.Walk(func(d, _ *Dir) { n++; d.ID = n })
}

func (d *Dir) Child(kw string) *Dir {
	for _, c := range d.Children {
		if c.Kw == kw {
			return c
		}
	}
	return nil
}

func IsVerb(k string) bool {
	switch k {
	case "GET", "POST", "PUT", "PATCH", "DELETE":
		return true
	}
	return false
}

func IsCode(k string) bool {
	return len(k) == 3 && k[0] >= '1' && k[0] <= '5' && k[1] >= '0' && k[1] <= '9' && k[2] >= '0' && k[2] <= '9'
}

// The documented nesting of directives, as far as the generator uses it. The
// model generator and its context fixer rely on this table - not on the
// library's - so that a document the documentation allows stays "valid" for
// the checks even if the library's table changes (C06, in contrast, reads the
// relation from the library: that property is parametric in it).
var docAdmits = map[string][]string{
	"URL":     {"GET", "POST", "PUT", "PATCH", "DELETE", "Path", "PASTE", "Protocol", "Method", "Tags"},
	"verb":    {"Description", "Request", "code", "Path", "Query", "PASTE", "Tags"},
	"code":    {"Body", "Headers", "PASTE"},
	"Request": {"Body", "Headers", "PASTE"},
	"INFO":    {"Title", "Version", "Description", "PASTE"},
	"SERVER":  {"BaseUrl", "PASTE"},
	"Method":  {"Description", "Params", "Result", "Tags"},
	"TAG":     {"Description"},
	"MACRO": {"INFO", "Title", "Version", "Description", "SERVER", "BaseUrl", "URL", "GET", "POST", "PUT", "PATCH", "DELETE", "Body",
		"Request", "code", "Path", "Headers", "Query", "TYPE", "ENUM", "PASTE"},
	"root": {"JSIGHT", "INFO", "SERVER", "URL", "GET", "POST", "PUT", "PATCH", "DELETE", "TYPE", "ENUM", "MACRO", "PASTE", "TAG"},
}

func kindClass(kw string) string {
	if IsVerb(kw) {
		return "verb"
	}
	if IsCode(kw) {
		return "code"
	}
	return kw
}

// DocAdmits: parent ("" = top level) admits child per the documented nesting.
func DocAdmits(parent, child string) bool {
	p := "root"
	if parent != "" {
		p = kindClass(parent)
	}
	c := kindClass(child)
	for _, a := range docAdmits[p] {
		if a == c || (a == child) {
			return true
		}
		if c == "verb" && IsVerb(a) && a == child {
			return true
		}
	}
	return false
}

// KindOf maps a keyword to the library's directive kind.
func KindOf(kw string) directive.Enumeration {
	e, err := directive.NewDirectiveType(kw)
	if err != nil {
		panic("model: unknown keyword " + kw)
	}
	return e
}

// PathBearing: an HTTP method that carries its own path.
func (d *Dir) PathBearing() bool { return IsVerb(d.Kw) && len(d.Params) > 0 }

// ---------------------------------------------------------------------------
// Reference context resolver over a model: the walk of C06 applied to the
// token sequence the renderer emits. It is used to make sure a rendering means
// the model tree it was rendered from.

type resNode struct {
	d        *Dir
	explicit bool
	parent   *resNode
}

// ResolveCheck replays the document's directives in written order through the
// reference walk and reports the first directive that would land under a
// different parent than in the model ("" when the text means the model).
func (doc *Doc) ResolveCheck() string {
	if doc.HasIncludes() {
		return doc.Flat().ResolveCheck()
	}
	var cur *resNode
	var problem string
	var place func(d, wantParent *Dir) *resNode
	place = func(d, wantParent *Dir) *resNode {
		for {
			if cur == nil {
				if !DocAdmits("", d.Kw) {
					problem = fmt.Sprintf("%s#%d has no admissible context", d.Kw, d.ID)
					return nil
				}
				if wantParent != nil {
					problem = fmt.Sprintf("%s#%d resolves to the top level, the model has it under %s#%d", d.Kw, d.ID, wantParent.Kw, wantParent.ID)
					return nil
				}
				n := &resNode{d: d, explicit: d.Explicit}
				cur = n
				return n
			}
			if DocAdmits(cur.d.Kw, d.Kw) {
				if d.PathBearing() && cur.d.Kw == "URL" {
					if cur.explicit {
						problem = fmt.Sprintf("%s#%d with a path inside a parenthesised URL", d.Kw, d.ID)
						return nil
					}
					cur = cur.parent
					continue
				}
				if cur.d != wantParent {
					wp := "the top level"
					if wantParent != nil {
						wp = fmt.Sprintf("%s#%d", wantParent.Kw, wantParent.ID)
					}
					problem = fmt.Sprintf("%s#%d is adopted by %s#%d, the model has it under %s", d.Kw, d.ID, cur.d.Kw, cur.d.ID, wp)
					return nil
				}
				n := &resNode{d: d, explicit: d.Explicit, parent: cur}
				cur = n
				return n
			}
			if cur.explicit {
				problem = fmt.Sprintf("%s#%d is not admitted inside the parentheses of %s#%d", d.Kw, d.ID, cur.d.Kw, cur.d.ID)
				return nil
			}
			cur = cur.parent
		}
	}
	var rec func(d, parent *Dir) bool
	rec = func(d, parent *Dir) bool {
		n := place(d, parent)
		if n == nil {
			return false
		}
		for _, c := range d.Children {
			if !rec(c, d) {
				return false
			}
		}
		if d.Explicit {
			// the closing parenthesis closes the nearest explicit context, which
			// must be this directive's
			for cur != nil && !cur.explicit {
				cur = cur.parent
			}
			if cur == nil || cur.d != d {
				problem = fmt.Sprintf("')' of %s#%d closes another context", d.Kw, d.ID)
				return false
			}
			cur = cur.parent
		}
		return true
	}
	for _, d := range doc.Top {
		if !rec(d, nil) {
			return problem
		}
	}
	return ""
}

// FixContexts makes the written order mean the model tree by putting explicit
// parentheses around the children of the sibling that would otherwise adopt a
// later directive. It reports false when that is not possible.
func (doc *Doc) FixContexts() bool {
	for i := 0; i < 200; i++ {
		if doc.ResolveCheck() == "" {
			return true
		}
		if !doc.fixOne() {
			return false
		}
	}
	return false
}

// fixOne finds the first mis-resolving directive and makes its preceding
// sibling explicit.
func (doc *Doc) fixOne() bool {
	// Re-run the walk, remembering for the failing directive its previous sibling.
	type frame struct {
		list []*Dir
		idx  int
	}
	var failing *Dir
	var prevSibling *Dir
	var cur *resNode
	var rec func(list []*Dir, parent *Dir) bool
	rec = func(list []*Dir, parent *Dir) bool {
		for i, d := range list {
			ok := false
			for {
				if cur == nil {
					ok = DocAdmits("", d.Kw) && parent == nil
					if ok {
						cur = &resNode{d: d, explicit: d.Explicit}
					}
					break
				}
				if DocAdmits(cur.d.Kw, d.Kw) {
					if d.PathBearing() && cur.d.Kw == "URL" {
						if cur.explicit {
							break
						}
						cur = cur.parent
						continue
					}
					ok = cur.d == parent
					if ok {
						cur = &resNode{d: d, explicit: d.Explicit, parent: cur}
					}
					break
				}
				if cur.explicit {
					break
				}
				cur = cur.parent
			}
			if !ok {
				failing = d
				if i > 0 {
					prevSibling = list[i-1]
				}
				return false
			}
			if !rec(d.Children, d) {
				return false
			}
			if d.Explicit {
				for cur != nil && !cur.explicit {
					cur = cur.parent
				}
				if cur == nil || cur.d != d {
					failing = d
					return false
				}
				cur = cur.parent
			}
		}
		return true
	}
	rec(doc.Top, nil)
	if failing == nil || prevSibling == nil {
		return false
	}
	if prevSibling.Explicit || len(prevSibling.Children) == 0 || !CanBeExplicit(prevSibling) {
		return false
	}
	prevSibling.Explicit = true
	return true
}

// CanBeExplicit: kinds whose children may be put in parentheses.
func CanBeExplicit(d *Dir) bool {
	switch d.Kw {
	case "Description", "JSIGHT":
		return false
	}
	if d.Kw == "URL" {
		// a parenthesised URL cannot be followed by hoisted methods written
		// inside; hoisted ones are siblings after ')', which is fine
		return true
	}
	return true
}

// ---------------------------------------------------------------------------
// small helpers used by several references

// Dedent is the reference normalisation of a Description's text lines.
func Dedent(lines []string) string {
	ll := append([]string(nil), lines...)
	blank := func(s string) bool { return strings.Trim(s, " \t") == "" }
	for len(ll) > 0 && blank(ll[0]) {
		ll = ll[1:]
	}
	for len(ll) > 0 && blank(ll[len(ll)-1]) {
		ll = ll[:len(ll)-1]
	}
	if len(ll) == 0 {
		return ""
	}
	p, first := "", true
	for _, l := range ll {
		if blank(l) {
			continue
		}
		lead := l[:len(l)-len(strings.TrimLeft(l, " \t"))]
		if first {
			p, first = lead, false
			continue
		}
		i := 0
		for i < len(p) && i < len(lead) && p[i] == lead[i] {
			i++
		}
		p = p[:i]
	}
	for i, l := range ll {
		ll[i] = strings.TrimPrefix(l, p)
	}
	ll[len(ll)-1] = strings.TrimRight(ll[len(ll)-1], " \t")
	return strings.Join(ll, "\n")
}
