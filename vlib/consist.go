package vlib

import (
	"encoding/json"
	"fmt"
	"strings"
	"unicode/utf8"
)

// Consistency is the C09 relation over the result of an accepted project.
// It returns the list of inconsistencies (each "key: detail").
func Consistency(res Result) []string {
	var out []string
	add := func(key, format string, a ...any) { out = append(out, key+": "+fmt.Sprintf(format, a...)) }
	js := res.JSON
	if res.ToJSONErr != "" {
		add("tojson-error", "%s", res.ToJSONErr)
		return out
	}
	if !json.Valid([]byte(js)) {
		add("invalid-json", "ToJson output is not valid JSON")
		return out
	}
	if !utf8.ValidString(js) {
		add("invalid-utf8", "ToJson output is not valid UTF-8")
	}
	v, err := DecodeOrdered([]byte(js))
	if err != nil {
		if strings.Contains(err.Error(), "duplicate key") {
			add("duplicate-key", "%v", err)
		} else {
			add("undecodable", "%v", err)
		}
		return out
	}
	vi, err := DecodeOrdered([]byte(res.JSONIndent))
	if err != nil {
		add("indent-undecodable", "%v", err)
	} else if Canon(v) != Canon(vi) {
		add("indent-differs", "ToJsonIndent denotes another value than ToJson")
	}
	c, ok := v.(*OMap)
	if !ok {
		add("not-object", "catalog is not an object")
		return out
	}
	inter := c.Obj("interactions")
	tags := c.Obj("tags")
	types := c.Obj("userTypes")
	enums := c.Obj("userEnums")
	title, _ := c.Str("info", "title")
	if res.Title != title {
		add("title", "Title() = %q but info.title = %q", res.Title, title)
	}
	if inter != nil {
		for _, k := range inter.Keys {
			m, _ := inter.Vals[k].(*OMap)
			if m == nil {
				add("interaction-shape", "%q is not an object", k)
				continue
			}
			id, _ := m.Str("id")
			if id != k {
				add("interaction-key-vs-id", "key %q has id %q", k, id)
			}
			proto, _ := m.Str("protocol")
			path, _ := m.Str("path")
			var want string
			switch proto {
			case "http":
				hm, _ := m.Str("httpMethod")
				want = "http " + hm + " " + path
			case "json-rpc-2.0":
				mn, _ := m.Str("method")
				want = "json-rpc-2.0 " + mn + " " + path
			default:
				add("interaction-protocol", "%q has protocol %q", k, proto)
			}
			if want != "" && want != k {
				add("interaction-id-encoding", "key %q does not encode protocol/method/path (%q)", k, want)
			}
			tl, _ := m.Get("tags").([]any)
			if len(tl) == 0 {
				add("interaction-without-tags", "%q", k)
			}
			for _, tn := range tl {
				name, _ := tn.(string)
				t := tags.Obj(name)
				if t == nil {
					add("interaction-tag-missing", "%q lists tag %q which does not exist", k, name)
					continue
				}
				found := false
				gs, _ := t.Get("interactionGroups").([]any)
				for _, g := range gs {
					gm, _ := g.(*OMap)
					if gp, _ := gm.Str("protocol"); gp == proto {
						ids, _ := gm.Get("interactions").([]any)
						for _, x := range ids {
							if x == k {
								found = true
							}
						}
					}
				}
				if !found {
					add("tag-does-not-list-interaction", "tag %q does not list %q", name, k)
				}
			}
			checkBody := func(what string, b *OMap) {
				if b == nil {
					add(what+"-without-body", "%q", k)
					return
				}
				f, _ := b.Str("format")
				n, _ := b.Str("schema", "notation")
				okf := (n == "jsight" && f == "json") || (n == "regex" && f == "plainString") || ((n == "any" || n == "empty") && f == "binary")
				if !okf {
					add("format-notation-mismatch", "%q %s: format %q with notation %q", k, what, f, n)
				}
			}
			if rq := m.Obj("request"); rq != nil {
				checkBody("request", rq.Obj("body"))
			}
			if rs, ok := m.Get("responses").([]any); ok {
				for _, r := range rs {
					rm, _ := r.(*OMap)
					if rm == nil {
						add("response-shape", "%q", k)
						continue
					}
					checkBody("response", rm.Obj("body"))
				}
			}
		}
	}
	if tags != nil {
		for _, tn := range tags.Keys {
			tm, _ := tags.Vals[tn].(*OMap)
			if tm == nil {
				continue
			}
			if n, _ := tm.Str("name"); n != tn {
				add("tag-key-vs-name", "key %q has name %q", tn, n)
			}
			gs, _ := tm.Get("interactionGroups").([]any)
			seenProto := map[string]bool{}
			for _, g := range gs {
				gm, _ := g.(*OMap)
				gp, _ := gm.Str("protocol")
				if seenProto[gp] {
					add("tag-group-duplicate", "tag %q has two groups for %q", tn, gp)
				}
				seenProto[gp] = true
				ids, _ := gm.Get("interactions").([]any)
				seen := map[string]bool{}
				for _, x := range ids {
					id, _ := x.(string)
					if seen[id] {
						add("tag-lists-interaction-twice", "tag %q lists %q twice", tn, id)
					}
					seen[id] = true
					im := inter.Obj(id)
					if im == nil {
						add("tag-lists-unknown-interaction", "tag %q lists %q", tn, id)
						continue
					}
					if ip, _ := im.Str("protocol"); ip != gp {
						add("tag-group-protocol-mismatch", "tag %q group %q lists %q of protocol %q", tn, gp, id, ip)
					}
					has := false
					tl, _ := im.Get("tags").([]any)
					for _, y := range tl {
						if y == tn {
							has = true
						}
					}
					if !has {
						add("interaction-does-not-list-tag", "%q is listed by tag %q but does not list it", id, tn)
					}
				}
			}
		}
	}
	// names used anywhere must exist
	var walk func(v any)
	walk = func(v any) {
		switch t := v.(type) {
		case *OMap:
			if l, ok := t.Get("usedUserTypes").([]any); ok {
				for _, n := range l {
					if name, _ := n.(string); !types.Has(name) {
						add("used-type-dangling", "%q", name)
					}
				}
			}
			if l, ok := t.Get("usedUserEnums").([]any); ok {
				for _, n := range l {
					if name, _ := n.(string); !enums.Has(name) {
						add("used-enum-dangling", "%q", name)
					}
				}
			}
			if tt, _ := t.Str("tokenType"); tt == "reference" {
				if sv, ok := t.Str("scalarValue"); ok && strings.HasPrefix(sv, "@") {
					key, _ := t.Str("key")
					for _, n := range strings.Split(sv, "|") { // the or-shortcut may be written without blanks
						n = strings.TrimSpace(n)
						if !strings.HasPrefix(n, "@") {
							continue
						}
						if key == "enum" {
							if !enums.Has(n) {
								add("enum-reference-dangling", "%q", n)
							}
						} else if !types.Has(n) && !enums.Has(n) {
							add("reference-dangling", "%q", n)
						}
					}
				}
			}
			for _, k := range t.Keys {
				walk(t.Vals[k])
			}
		case []any:
			for _, x := range t {
				walk(x)
			}
		}
	}
	walk(c)
	return out
}
